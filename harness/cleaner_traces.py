"""Shared recorder for C05 / C06 / C07: drives the tree cleaner pass by pass and records one
snapshot per pass for spec/CleanerTrace.tla.

The passes are called DIRECTLY — getattr(tc, name)(tree) for each name of
TreeCleaner.cleaner_methods on one TreeCleaner(tree, save_reports=True) — never through
clean()/clean_all(), whose catch-all hides exceptions; after a pass that raised the driver goes on
with the next one exactly as clean() would.
"""
import json
import os
import signal
import sys
import traceback

FIXED_POINT = ("fix_paragraphs", "fix_nesting", "remove_breaking_returns")
CALL_CAP = 4_000_000          # deterministic absolute cap per pass (normal: < 2*10^4 calls)
WATCHDOG_S = 30


class Budget(BaseException):
    """raised inside a pass when it exceeds its call budget or the watchdog fires"""


# ------------------------------------------------------------------ projection
def nodes_preorder(root):
    """distinct objects reachable through the children lists, preorder; terminates on cycles"""
    order, index = [], {}
    stack = [root]
    while stack:
        n = stack.pop()
        if id(n) in index:
            continue
        index[id(n)] = len(order) + 1
        order.append(n)
        kids = getattr(n, "children", None) or []
        for c in reversed(kids):
            if id(c) not in index:
                stack.append(c)
    return order, index


def project(root):
    order, index = nodes_preorder(root)
    n = len(order)
    cls, par, kids, text = [], [], [], []
    for node in order:
        cls.append(node.__class__.__name__)
        p = getattr(node, "parent", None)
        par.append(0 if p is None else index.get(id(p), n + 1))
        kids.append([index[id(c)] for c in (node.children or [])])
        text.append(node.__class__.__name__ == "Text")
    return {"n": n, "cls": cls, "par": par, "kids": kids, "text": text, "words": words_of(root, index)}


def words_of(root, index):
    """visible words in reading order with their coarse place (C07)"""
    res = []
    refs = {}
    seen = set()

    def place(node):
        sec, li, ref = [], [], 0
        chain = []
        n = node
        guard = 0
        while n is not None and guard < 10000:
            chain.append(n)
            n = getattr(n, "parent", None)
            guard += 1
        for a in reversed(chain):
            c = a.__class__.__name__
            if c == "Section":
                sec.append(int(getattr(a, "level", 0) or 0))
            elif c == "Item":
                p = getattr(a, "parent", None)
                if p is not None and p.__class__.__name__ == "ItemList":
                    li.append("ol" if getattr(p, "numbered", False) else "ul")
                else:
                    li.append("item?")
            elif c == "Reference":
                ref = refs.setdefault(id(a), len(refs) + 1)
        return sec, li, ref

    def walk(n):
        if id(n) in seen:
            return
        seen.add(id(n))
        c = n.__class__.__name__
        if c == "Text":
            pieces = (n.caption or "").split()
            if pieces:
                sec, li, ref = place(n)
                for w in pieces:
                    res.append({"w": w, "sec": sec, "li": li, "ref": ref, "node": index[id(n)]})
            return
        if c in ("ArticleLink", "NamespaceLink") and not n.children and getattr(n, "target", None):
            sec, li, ref = place(n)
            for w in n.target.split():
                res.append({"w": w, "sec": sec, "li": li, "ref": ref, "node": index[id(n)]})
        for ch in (n.children or []):
            walk(ch)

    walk(root)
    return res


def canon(root):
    """identity-free form of a tree (for the fixed-point test)"""
    out = []
    seen = set()

    def walk(n, d):
        if id(n) in seen or d > 2000:
            out.append("<again>")
            return
        seen.add(id(n))
        out.append("(" + n.__class__.__name__)
        if n.__class__.__name__ == "Text":
            out.append(repr(n.caption))
        for c in (n.children or []):
            walk(c, d + 1)
        out.append(")")

    walk(root, 0)
    return "".join(out)


# ------------------------------------------------------------------ running one pass
def _innermost_mwlib_frame(tb):
    where = "?"
    for fs in traceback.extract_tb(tb):
        fn = fs.filename.replace("\\", "/")
        if "/mwlib/" in fn:
            where = "%s:%s" % (fn.split("/mwlib/", 1)[1], fs.name)
    return where


def run_pass(tc, name, tree, cap=CALL_CAP):
    """-> (status, errkey, calls)"""
    calls = [0]

    def prof(frame, event, arg):
        if event == "call":
            calls[0] += 1
            if calls[0] > cap:
                sys.setprofile(None)
                raise Budget("call budget")

    def on_alarm(signum, frame):
        raise Budget("watchdog")

    old = signal.signal(signal.SIGALRM, on_alarm)
    signal.setitimer(signal.ITIMER_REAL, WATCHDOG_S)
    status, errkey = "ok", ""
    try:
        method = getattr(tc, name)
        sys.setprofile(prof)
        try:
            method(tree)
        finally:
            sys.setprofile(None)
    except Budget as e:
        status, errkey = "budget", "pass=%s %s" % (name, e)
    except RecursionError:
        status, errkey = "raised", "pass=%s exc=RecursionError" % name
    except Exception as e:                                           # noqa: BLE001
        status = "raised"
        errkey = "pass=%s exc=%s at=%s" % (name, type(e).__name__, _innermost_mwlib_frame(e.__traceback__))
    finally:
        signal.setitimer(signal.ITIMER_REAL, 0)
        signal.signal(signal.SIGALRM, old)
    return status, errkey, calls[0]


def is_stable(name, tree):
    """apply the pass once more to a copy; did the (identity-free) tree change?"""
    from mwlib.parser.treecleaner import TreeCleaner
    try:
        cp = tree.copy()
    except Exception:                                                # noqa: BLE001
        return True, "copy-failed"
    before = canon(cp)
    tc2 = TreeCleaner(cp, save_reports=False)
    status, errkey, _ = run_pass(tc2, name, cp)
    if status != "ok":
        return False, "second application: " + errkey
    return canon(cp) == before, ""


# ------------------------------------------------------------------ one document
def record(raw, lang="en", title="Verif", doc_id=0, lossless=False):
    from mwlib.parser import advtree
    from mwlib.parser.refine.uparser import parse_string
    from mwlib.parser.treecleaner import TreeCleaner

    trace = {"id": doc_id, "lossless": bool(lossless), "snaps": [], "raw": raw, "lang": lang,
             "calls": {}, "fired": [], "changed": [], "parse_error": ""}
    try:
        tree = parse_string(title, raw=raw, lang=lang)
        advtree.build_advanced_tree(tree)
    except Exception as e:                                           # noqa: BLE001  (C01's business, not ours)
        trace["parse_error"] = "%s: %s" % (type(e).__name__, str(e)[:200])
        return trace
    prev = project(tree)
    snap = dict(prev)
    snap.update({"pass": "build", "status": "ok", "stable": True, "errkey": "", "same": False})
    trace["snaps"].append(snap)
    tc = TreeCleaner(tree, save_reports=True)
    for name in TreeCleaner.cleaner_methods:
        nrep = len(tc.get_reports())
        status, errkey, calls = run_pass(tc, name, tree)
        stable, why = True, ""
        if name in FIXED_POINT and status == "ok":
            stable, why = is_stable(name, tree)
        cur = project(tree)
        same = cur == prev
        snap = {"pass": name, "status": status, "stable": bool(stable), "errkey": errkey or why, "same": same}
        if not same:
            snap.update(cur)
            trace["changed"].append(name)
        trace["snaps"].append(snap)
        trace["calls"].setdefault(name, []).append([prev["n"], calls])
        if len(tc.get_reports()) > nrep:
            trace["fired"].append(name)
        prev = cur
    trace["final_n"] = prev["n"]
    return trace


def for_tlc(trace):
    return {"id": trace["id"], "lossless": trace["lossless"], "snaps": trace["snaps"]}


def write_batch(traces, path):
    with open(path, "w") as f:
        json.dump([for_tlc(t) for t in traces], f, separators=(",", ":"))
    return os.path.getsize(path)
