"""Shared helpers of C10 / C01 / C09: concretisation of the lexeme atoms of spec/WikiTokens.tla,
the production wiki database (an archive written with fetch.FsOutput, opened with
wiki.make_wiki -> nuwiki.Adapt), the parse entry the renderer uses, a recorder of pipeline
stages (ParsePipelineTrace.tla), a watchdog and a deterministic call counter.

Nothing here judges anything: it concretises, executes and projects.
"""
import json
import os
import re
import shutil
import signal
import sys

# ------------------------------------------------------------------ lexeme atoms -> text
# atoms not listed denote themselves
CONCRETE = {
    "SP": " ", "NL": "\n", "NLNL": "\n\n", "NL_SP_NL": "\n \n", "TAB": "\t", "CR": "\r", "CRNL": "\r\n",
    "SP_NL": " \n", "NL_SP": "\n ", "NLNLNL": "\n\n\n",
    "EBAD": "\uebad", "NUL": "\0", "EBAC": "\uebac", "EBAE": "\uebae",
    "=TAB": "=\t", "SP{|": " {|", "SP|}": " |}", "SP|-": " |-", "TAB|-": "\t|-", "SP|": " |", "SP!": " !",
    "TAB|": "\t|", "SP|+": " |+",
    "UNIQ": "\x7fUNIQ-nowiki-7-0123456789abcdef-QINU\x7f", "UNIQ_HEAD": "\x7fUNIQ-", "DEL": "\x7f",
    "NONBMP": "\U0001F600", "SURROGATE": "\ud800", "U_FFFF": "\uffff",
    "SOH": "\x01", "VT": "\x0b", "FF": "\x0c", "US": "\x1f", "NEL": "\x85", "LSEP": "\u2028", "LRM": "\u200e",
    "BOM": "\ufeff", "COMBINING": "\u0301", "NBSP": "\xa0", "ZWSP": "\u200b", "RTLO": "\u202e",
}
_NAMED = re.compile(r"^(?:[A-Z][A-Z_0-9]+|(?:SP|TAB|NL|CR)[^a-z]*)$")


def concretise(seq):
    return "".join(CONCRETE.get(x, x) for x in seq)


def check_alphabet(ctx, alphabet, complete=False):
    """The spec's alphabet and the table above must agree (machinery failure otherwise)."""
    alpha = set(alphabet)
    for a in alpha:
        if a not in CONCRETE and _NAMED.match(a) and a not in ("SP", "TAB", "NL", "CR"):
            ctx.machinery("lexeme atom %r looks like a named atom but has no concretisation" % a)
    if complete:
        stale = set(CONCRETE) - alpha
        if stale:
            ctx.machinery("concretisation table has atoms the spec does not know: %r" % sorted(stale))
    texts = {}
    for a in alpha:
        t = CONCRETE.get(a, a)
        if t in texts:
            ctx.machinery("two atoms with the same text: %r %r" % (a, texts[t]))
        texts[t] = a


# ------------------------------------------------------------------ TLC plumbing local to these checks
_COV2 = re.compile(r"^<(\w+) line \d+, col \d+ to line \d+, col \d+ of module (\w+)(?: \([\d ]+\))?>: (\d+):(\d+)", re.M)


def coverage_of(res):
    """Per-action [distinct, taken] from a `-coverage 1` run (also understands the
    `<Name line .. of module M (a b c d)>` form TLC prints for sub-actions)."""
    cov = {}
    for m in _COV2.finditer(res.out):
        c = cov.setdefault(m.group(1), [0, 0])
        c[0] += int(m.group(3))
        c[1] += int(m.group(4))
    return cov


_TID = re.compile(r"^/\\ tid = (\d+)\s*$", re.M)
_ERRSPLIT = re.compile(r"^Error: ", re.M)


def violating_tids(res, invariant):
    """tids of all behaviours for which TLC (run with -continue) reported `invariant` violated."""
    out = set()
    parts = _ERRSPLIT.split(res.out)
    for i, part in enumerate(parts):
        if part.startswith("Invariant %s is violated" % invariant):
            # the behaviour follows in the next "Error: The behavior up to this point is" part
            blob = part + (parts[i + 1] if i + 1 < len(parts) else "")
            tids = _TID.findall(blob)
            if tids:
                out.add(int(tids[-1]))
    return out


# ------------------------------------------------------------------ production wiki database
TEMPLATES = {
    "Template:Echo": "[{{{1}}}]",
    "Template:Loop": "{{Loop}}",
    "Template:Tbl": "{|\n|{{{1|}}}\n|}",
    "Template:Open": "<div>''[[",
    "Template:!": "|",
}
TITLE = "Test page"
LANGS = ["de", "en", "es", "fr", "it", "ja", "nl", "no", "pl", "pt", "simple", "sv"]


def quiet():
    import logging
    logging.disable(logging.CRITICAL)
    os.environ.setdefault("MWLIB_HTTP2_ENABLED", "false")
    os.environ.setdefault("MWLIB_FETCH_MAX_REQUESTS_PER_SECOND", "0")


def build_wikidb(path, lang, pages=None):
    """Write an archive with the production writer and open it with the production reader.
    pages: {fully qualified title: wikitext}; namespace 10 for 'Template:...' titles, else 0."""
    quiet()
    from mwlib.core import wiki
    from mwlib.network import fetch, siteinfo
    if os.path.exists(path):
        shutil.rmtree(path)
    out = fetch.FsOutput(path)
    si = siteinfo.get_siteinfo(lang)
    if si is None:
        raise RuntimeError("no bundled siteinfo for %r" % lang)
    out.write_siteinfo(si)
    out.nfo = {"format": "nuwiki", "base_url": "http://%s.example.org/w/" % lang, "script_extension": ".php"}
    tplns = None
    for ns in si["namespaces"].values():
        if ns.get("id") == 10:
            tplns = ns.get("*")
    allpages = dict(TEMPLATES)
    allpages.update(pages or {})
    data = {}
    for i, (title, txt) in enumerate(sorted(allpages.items())):
        ns = 0
        if title.startswith("Template:"):
            ns = 10
            title = "%s:%s" % (tplns, title[len("Template:"):])
        data[str(i)] = {"title": title, "ns": ns, "revisions": [{"revid": 1000 + i, "*": txt}]}
    out.write_pages({"pages": data})
    out.write_redirects({})
    out.write_authors()
    out.write_html()
    out.imageinfo.close()
    out.close()
    env = wiki.make_wiki(path)
    return env.wiki


def parse(raw, wikidb, lang, title=TITLE):
    """The call nuwiki.Adapt.get_parsed_article makes for the renderer."""
    from mwlib.parser.refine import uparser
    return uparser.parse_string(title=title, raw=raw, wikidb=wikidb, lang=lang)


# ------------------------------------------------------------------ watchdog (hangs only)
class Hang(BaseException):
    pass


def _on_alarm(signum, frame):
    raise Hang()


class watchdog:
    """with watchdog(seconds): ...   raises Hang inside the block after `seconds` of CPU time of this
    process (ITIMER_PROF: a loaded machine must not turn a slow run into a "hang").
    Only for hangs: the limits used are >= 50x the normal running time."""

    def __init__(self, seconds):
        self.seconds = seconds

    def __enter__(self):
        self.old = signal.signal(signal.SIGPROF, _on_alarm)
        signal.setitimer(signal.ITIMER_PROF, self.seconds)

    def __exit__(self, *exc):
        signal.setitimer(signal.ITIMER_PROF, 0)
        signal.signal(signal.SIGPROF, self.old)
        return False


# ------------------------------------------------------------------ deterministic work counter
class Budget(BaseException):
    pass


class CallCounter:
    """Counts Python function entries and call instructions (sys.monitoring PY_START + CALL);
    raises Budget inside the measured code when `limit` is exceeded."""
    TOOL = 4

    def __init__(self):
        self.n = 0
        self.limit = None
        mon = sys.monitoring
        try:
            mon.use_tool_id(self.TOOL, "verif-count")
        except ValueError:
            pass
        mon.register_callback(self.TOOL, mon.events.PY_START, self._start)
        mon.register_callback(self.TOOL, mon.events.CALL, self._call)

    def _start(self, code, off):
        self.n += 1
        if self.limit is not None and self.n > self.limit:
            self.limit = None
            raise Budget()

    def _call(self, code, off, fn, arg0):
        self.n += 1

    def measure(self, fn, limit=None):
        mon = sys.monitoring
        self.n = 0
        self.limit = limit
        mon.set_events(self.TOOL, mon.events.PY_START | mon.events.CALL)
        try:
            fn()
        finally:
            mon.set_events(self.TOOL, 0)
            self.limit = None
        return self.n


# ------------------------------------------------------------------ pipeline stage recorder
def innermost_mwlib_frame(tb):
    """(file relative to mwlib/, function) of the innermost traceback frame inside mwlib."""
    best = None
    while tb is not None:
        fn = tb.tb_frame.f_code.co_filename
        if "/mwlib/" in fn:
            best = (fn.split("/mwlib/", 1)[1], tb.tb_frame.f_code.co_name)
        tb = tb.tb_next
    return best or ("?", "?")


class HarnessFault(Exception):
    """An exception raised by verification code that is wrapped into the code under test."""


def harness_fault(exc):
    """If the innermost frame of the traceback is verification code (a wrapper of ours running inside
    the code under test), a description of it; else None.  Such an exception says nothing about
    mwlib: it is a machinery failure, never a violation."""
    tb = exc.__traceback__
    last = None
    while tb is not None:
        last = tb
        tb = tb.tb_next
    if last is None:
        return None
    fn = os.path.abspath(last.tb_frame.f_code.co_filename)
    here = os.path.dirname(os.path.dirname(os.path.abspath(__file__)))
    if fn.startswith(here + os.sep):
        return "%s: %s raised in the harness at %s:%d (%s) — a seam the harness relies on has changed" % (
            type(exc).__name__, exc, os.path.relpath(fn, here), last.tb_lineno, last.tb_frame.f_code.co_name)
    return None


def crash_key(entry, exc):
    hf = harness_fault(exc)
    if hf:
        raise HarnessFault(hf)
    f, fun = innermost_mwlib_frame(exc.__traceback__)
    return "%s %s %s:%s" % (entry, type(exc).__name__, f, fun)


class Recorder:
    """Wraps the module-level seams of the parse pipeline (nothing in /repo is edited) and records
    the events ParsePipelineTrace.tla validates."""
    installed = None

    def __init__(self):
        self.events = []
        self.frames = []          # per open frame: set of pass names already started

    # -- event helpers
    def begin(self, kind):
        self.events.append(["begin", kind])
        self.frames.append(set())

    def end(self, kind):
        self.events.append(["end", kind])
        self.frames.pop()

    def stage(self, name):
        self.events.append(["stage", name])

    def reset(self):
        self.events = []
        self.frames = []

    @classmethod
    def install(cls):
        if cls.installed is not None:
            return cls.installed
        quiet()
        from mwlib.parser.refine import compat, core, uparser
        from mwlib.parser.refine.tagparser import TagParser
        rec = cls()

        def pass_name(p):
            # must not throw: this runs inside parse_string (CombinedParser.__init__)
            if isinstance(p, TagParser):
                names = None
                for v in list(vars(p).values()):
                    if isinstance(v, dict) and v and all(hasattr(t, "tagname") for t in v.values()):
                        names = sorted(str(t.tagname) for t in v.values())
                        break
                return "TagParser:" + (",".join(names) if names else "?")
            return getattr(p, "__name__", type(p).__name__)

        class PassWrap:
            def __init__(self, p):
                self.p = p
                self.name = pass_name(p)
                if hasattr(p, "need_walker"):
                    self.need_walker = p.need_walker

            def __call__(self, tokens, xopts):
                seen = rec.frames[-1] if rec.frames else set()
                if self.name not in seen:
                    seen.add(self.name)
                    rec.stage(self.name)
                return self.p(tokens, xopts)

        orig_init = core.CombinedParser.__init__

        def cp_init(self, parsers):
            orig_init(self, [PassWrap(p) for p in parsers])
        core.CombinedParser.__init__ = cp_init

        orig_tokenize = core.tokenize

        def tokenize(*a, **kw):
            rec.stage("Tokenize")
            return orig_tokenize(*a, **kw)
        core.tokenize = tokenize

        orig_core_parse = core.parse_txt

        def core_parse_txt(*a, **kw):
            rec.begin("txt")
            r = orig_core_parse(*a, **kw)
            rec.end("txt")
            return r
        core.parse_txt = core_parse_txt

        orig_compat_parse = compat.parse_txt

        def compat_parse_txt(*a, **kw):
            rec.begin("compat")
            r = orig_compat_parse(*a, **kw)
            rec.end("compat")
            return r
        compat.parse_txt = compat_parse_txt

        orig_expand = uparser.process_expander_and_siteinfo

        def expand(wikidb, title, raw, expand_templates):
            if expand_templates:
                rec.stage("Expand")
            return orig_expand(wikidb, title, raw, expand_templates)
        uparser.process_expander_and_siteinfo = expand

        def wrap_post(pp):
            def post(article, **kw):
                rec.stage("Post:" + pp.__name__)
                return pp(article, **kw)
            return post
        uparser.postprocessors = [wrap_post(pp) for pp in uparser.postprocessors]
        cls.installed = rec
        return rec

    def run(self, raw, wikidb, lang, title=TITLE):
        """Parse once; returns (events, article or None, exception or None).  Hang / Budget pass through."""
        from mwlib.parser.nodes import Article
        self.reset()
        self.begin("article")
        try:
            art = parse(raw, wikidb, lang, title)
        except Exception as e:                                      # noqa: BLE001
            ev = self.events
            ev.append(["raise", type(e).__name__])
            return ev, None, e
        if type(art) is Article:
            self.end("article")
        else:
            self.events.append(["end", "article!" + type(art).__name__])
        return self.events, art, None


# ------------------------------------------------------------------ process pool that cannot hang
def pmap(ctx, fn, jobs):
    """Run fn over jobs in ctx.ncpu forked worker processes, yielding results as they complete.
    Unlike multiprocessing.Pool this notices a worker that died (segfault in a rebuilt extension,
    a stray signal): that is a machinery failure, never a silent hang."""
    import multiprocessing
    from concurrent.futures import ProcessPoolExecutor, as_completed
    from concurrent.futures.process import BrokenProcessPool
    ex = ProcessPoolExecutor(max_workers=ctx.ncpu, mp_context=multiprocessing.get_context("fork"))
    try:
        futs = [ex.submit(fn, j) for j in jobs]
        for f in as_completed(futs):
            try:
                yield f.result()
            except HarnessFault as e:
                ctx.machinery(str(e))
            except BrokenProcessPool:
                ctx.machinery("a worker process died while executing %s (killed or crashed)" % fn.__name__)
    finally:
        ex.shutdown(wait=True, cancel_futures=True)


# ------------------------------------------------------------------ in-context pumping (spec: Zones, PumpUnits)
ZONES = {
    "tag-attr": ("<span ", ">x</span>"),
    "unknown-tag-attr": ("<foo ", ">x</foo>"),
    "closing-tag-attr": ("<b>x</b ", ">"),
    "ext-tag-attr": ("<ref ", ">x</ref>"),
    "opaque-tag-attr": ("<source ", ">x</source>"),
    "attr-value": ('<span class="', '">x</span>'),
    "table-attr": ("{| ", "\n| x\n|}\n"),
    "row-attr": ("{|\n|- ", "\n| x\n|}\n"),
    "cell-attr": ("{|\n| ", " | x\n|}\n"),
    "header-cell-attr": ("{|\n! ", " | x\n|}\n"),
    "caption-attr": ("{|\n|+ ", " | x\n|-\n| y\n|}\n"),
    "link-target": ("[[", "]]"),
    "link-label": ("[[a|", "]]"),
    "image-option": ("[[Image:a.png|", "|x]]"),
    "url": ("http://ex.org/", " x"),
    "bracket-url": ("[http://ex.org/", " x]"),
    "bracket-url-label": ("[http://ex.org/ ", "]"),
    "mailto": ("mailto:", "@ex.org"),
    "entity-name": ("&", ";"),
    "entity-number": ("&#", ";"),
    "heading": ("== ", " ==\n"),
    "list-item": ("* ", "\n"),
    "pre-line": (" ", "\n"),
    "comment": ("<!-- ", " -->"),
    "template-name": ("{{", "}}"),
    "template-arg": ("{{Echo|", "}}"),
    "template-param": ("{{{", "}}}"),
    "parser-function": ("{{#if:", "|y|n}}"),
    "magic-word": ("__", "__"),
    "nowiki-body": ("<nowiki>", "</nowiki>"),
}
UNITS = {"a": "a", "1": "1", "_": "_", "-": "-", ":": ":", "SP_a": " a", "=": "=", "a=": "a=", "QUOTE": '"',
         "APOS": "'", "x": "x", "|": "|", "&": "&", ";": ";", "NONBMP": "\U0001F600", "/": "/"}
ZONE_SIZES = (8, 16, 24, 32, 64)
# spec: DigitZones — (prefix, suffix) around a decimal number whose digits are pumped
DIGIT_ZONES = {
    "pages-to": ('<pages index="x" from=1 to=', " />"),
    "pages-from": ('<pages index="x" from=', " to=3 />"),
    "gallery-perrow": ("<gallery perrow=", ">\nImage:a.png|a\n</gallery>"),
    "gallery-widths": ("<gallery widths=", ">\nImage:a.png|a\n</gallery>"),
    "gallery-heights": ("<gallery heights=", ">\nImage:a.png|a\n</gallery>"),
    "source-start": ("<source lang=c line start=", ">x</source>"),
    "ol-start": ("<ol start=", "><li>a</li></ol>"),
    "li-value": ("<ol><li value=", ">a</li></ol>"),
    "cell-colspan": ("{|\n| colspan=", " | a\n|}\n"),
    "cell-rowspan": ("{|\n| rowspan=", " | a\n|}\n"),
    "td-colspan": ("<table><tr><td colspan=", ">a</td></tr></table>"),
    "imagemap-coordinate": ("<imagemap>\nImage:a.png\nrect 0 0 ", " 10 [[a]]\n</imagemap>"),
    "image-px": ("[[Image:a.png|", "px]]"),
    "image-upright": ("[[Image:a.png|upright=", "]]"),
    "padleft-width": ("{{padleft:x|", "}}"),
    "entity-number": ("&#", ";"),
    "formatnum": ("{{formatnum:", "}}"),
    "expr-operand": ("{{#expr:1+", "}}"),
}
DIGIT_SIZES = (1, 2, 3, 4)


def digit_text(zone, n):
    pre, suf = DIGIT_ZONES[zone]
    return pre + "1" * n + suf


def check_zones(ctx, zones, units, digitzones=None):
    if digitzones is not None and set(digitzones) != set(DIGIT_ZONES):
        ctx.machinery("digit-zone table of harness/wikitext.py disagrees with WikiTokens.tla: %r"
                      % sorted(set(digitzones) ^ set(DIGIT_ZONES)))
    if set(zones) != set(ZONES) or set(units) != set(UNITS):
        ctx.machinery("zone / unit tables of harness/wikitext.py disagree with WikiTokens.tla: %r %r"
                      % (sorted(set(zones) ^ set(ZONES)), sorted(set(units) ^ set(UNITS))))


def zone_text(zone, unit, n):
    pre, suf = ZONES[zone]
    return pre + UNITS[unit] * n + suf


# ------------------------------------------------------------------ supervised children with a hard deadline
def supervised(ctx, fn, chunks_, max_kills=6):
    """Run fn(chunk, start_at, send) in one forked child per chunk (ctx.ncpu at a time).  The child
    announces every unit of work with send(("start", index, deadline_seconds, info)) and reports with
    send(("result", index, obj, None)).  The parent enforces the deadline from outside: a child that is
    stuck where no signal handler can run (a backtracking regex inside C code) is KILLED, the unit is
    reported as ("killed", index, deadline) and a new child continues after it.
    Yields (chunk number, kind, index, payload)."""
    import multiprocessing
    import threading
    import time as _time
    from concurrent.futures import ThreadPoolExecutor
    mp = multiprocessing.get_context("fork")
    kills = [0]
    lock = threading.Lock()

    def child(chunk, start_at, conn):
        try:
            fn(chunk, start_at, conn.send)
            conn.send(("end", None, None, None))
        except BaseException as e:                                  # noqa: BLE001
            try:
                conn.send(("error", None, repr(e)[:500], None))
            except Exception:                                       # noqa: BLE001
                pass
        finally:
            conn.close()
            os._exit(0)

    def run_chunk(cn, chunk):
        out = []
        start_at = 0
        while True:
            with lock:
                if kills[0] >= max_kills:
                    out.append((cn, "skipped", start_at, None))
                    return out
            parent, kid = mp.Pipe(duplex=False)
            p = mp.Process(target=child, args=(chunk, start_at, kid))
            p.start()
            kid.close()
            current = None
            ended = False
            while True:
                timeout = None if current is None else max(0.0, current[1] - _time.time())
                try:
                    ready = parent.poll(timeout if timeout is not None else 3600)
                except (EOFError, OSError):
                    ready = False
                if not ready:
                    if current is None:
                        if p.is_alive():
                            continue
                        break
                    # deadline passed: kill
                    p.kill()
                    p.join()
                    with lock:
                        kills[0] += 1
                    out.append((cn, "killed", current[0], (current[2], current[3])))
                    start_at = current[0] + 1
                    break
                try:
                    kind, idx, payload, info = parent.recv()
                except (EOFError, OSError):
                    break
                if kind == "start":
                    current = (idx, _time.time() + payload, payload, info)
                elif kind == "result":
                    out.append((cn, "result", idx, payload))
                    current = None
                elif kind == "end":
                    ended = True
                    break
                elif kind == "error":
                    out.append((cn, "error", None, payload))
                    ended = True
                    break
            parent.close()
            if p.is_alive():
                p.join(5)
                if p.is_alive():
                    p.kill()
            if ended:
                return out
            if not out or out[-1][1] != "killed":
                out.append((cn, "error", None, "child died without a report"))
                return out

    with ThreadPoolExecutor(ctx.ncpu) as ex:
        for res in ex.map(lambda a: run_chunk(*a), list(enumerate(chunks_))):
            for r in res:
                if r[1] == "error":
                    ctx.machinery("supervised worker failed: %s" % r[3])
                yield r
