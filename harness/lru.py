"""Beyond the listed properties: spec/Lru.tla bound to mwlib.utils.lrucache.LRUCache (and the
locked MTLRUCache) by P-REPLAY."""
from . import tlc


def cfg(maxsize, maxlen, emit=True):
    return ("SPECIFICATION Spec\nCONSTANTS\n  Keys = {\"a\", \"b\", \"c\"}\n  Vals = {1, 2}\n  Max = %d\n  MaxLen = %d\n  EmitCases = %s\n"
            "INVARIANTS TypeOK Consistent NoDuplicates EmitFull\nPROPERTIES RecentSurvives\nCHECK_DEADLOCK FALSE\n"
            % (maxsize, maxlen, "TRUE" if emit else "FALSE"))


def replay(hist, maxsize, cls):
    c = cls(maxsize)
    for k, h in enumerate(hist):
        if h["op"] == "get":
            try:
                ret = c[h["k"]]
            except KeyError:
                ret = 0
            if ret != h["ret"]:
                return "step %d get(%s) returned %r, specification %r" % (k + 1, h["k"], ret, h["ret"])
        else:
            c[h["k"]] = h["v"]
        keys = sorted(c.cache)
        if keys != sorted(h["keys"]):
            return "step %d %s(%s): cached keys %r, specification %r" % (k + 1, h["op"], h["k"], keys, sorted(h["keys"]))
        if len(c.queue) > 4 * maxsize + 1:
            return "step %d: the access queue holds %d entries for %d keys (never compacted)" % (k + 1, len(c.queue), maxsize)
    return None


def check(ctx, quick):
    from mwlib.utils import lrucache
    total = bad = 0
    states = trans = 0
    for maxsize, depth, sim in ((1, 4, 12), (2, 4, 14)) if quick else ((1, 5, 14), (2, 5, 16), (3, 4, 20)):
        res = tlc.run(ctx, "Lru", cfg(maxsize, depth), name="lru_bfs%d" % maxsize, timeout=900, coverage=True)
        if not res.ok:
            ctx.machinery("Lru.tla violates %s %s\n%s" % (res.kind, res.name, res.out[-1200:]))
        missing = tlc.uncovered_actions(res, ["DoGet", "DoSet"])
        if missing:
            ctx.machinery("actions never taken in Lru.tla: %s" % missing)
        s = tlc.run(ctx, "Lru", cfg(maxsize, sim), name="lru_sim%d" % maxsize, simulate=120 if quick else 1200, depth=sim + 1,
                    seed=ctx.seed + maxsize, timeout=900, workers=1)
        if not s.ok:
            ctx.machinery("Lru.tla (simulation) violates %s %s" % (s.kind, s.name))
        states += res.distinct + s.distinct
        trans += res.generated + s.generated
        for c in res.emitted + s.emitted:
            for cls in (lrucache.LRUCache, lrucache.MTLRUCache):
                total += 1
                try:
                    d = replay(c["hist"], maxsize, cls)
                except Exception as e:                           # noqa: BLE001
                    d = "the replay harness saw %r" % (e,)
                if d:
                    bad += 1
                    if bad <= 3:
                        ctx.drift("Lru", "mwlib.utils.lrucache.%s(maxsize=%d) does not follow Lru.tla: %s" % (cls.__name__, maxsize, d),
                                  {"hist": c["hist"], "maxsize": maxsize, "difference": d})
    ctx.cover(states=states, transitions=trans, traces_validated_against_impl=total - bad)
    ctx.set_cover(lru_behaviours_replayed=total, lru_behaviours_differing=bad)
