"""Shared runner for C16, C17, C18 (spec/WorkQ.tla, WorkQProps.tla, WorkQTrace.tla).

  P-MC     exhaustive BFS of the reference spec (symmetry on workers / channels / job ids, depth
           bound as a level constraint) with the property's invariants and action properties;
           `-simulate` for deep random behaviours; the defect switches must make TLC fail.
  P-TRACE  seeded operation sequences run on the REAL server under real gevent; TLC validates
           every recorded step (action enabled + complete post-state equal + all properties).
  P-REPLAY behaviours chosen by TLC (simulation, AtomicDrain) stepped through the real server
           with TLC's choices imposed; projected state compared after every step.
"""
import json
import multiprocessing
import os
import random

from . import tlc
from . import qstrace
from .common import chunks

MC_MODULE = """---- MODULE %(name)s ----
EXTENDS WorkQProps
CONSTANTS %(mvs)s
Sym == %(sym)s
DepthBound == TLCGet("level") <= %(depth)d
====
"""


def mc_cfg(prop, depth, *, workers=3, ids=4, restart=False, wait=False, switches=None, symmetry=True,
           killers=None, reconnect=False, invs=None, props=None, tmos="{1, 100}", prios="{0, 1}", maxtime=3):
    W = ["w%d" % i for i in range(1, workers + 1)]
    C = ["c1", "c2"]
    J = ["a", "b", "c", "d"][:ids]          # model values in the MC configs (strings=False)
    K = ["k1"] if wait else []
    mvs = W + C + J + K
    cfg = "SPECIFICATION Spec\nCONSTANTS\n  " + "\n  ".join("%s = %s" % (m, m) for m in mvs) + "\n"
    cfg += qstrace.const_block(W, C, J, K, maxjobs=ids, maxtime=maxtime, restart=restart, wait=wait, info=False,
                               drop=False, reconnect=reconnect, atomic=False, strings=False, switches=switches,
                               killers=killers, tmos=tmos, prios=prios).replace("CONSTANTS\n", "")
    if symmetry:
        cfg += "SYMMETRY Sym\n"
    cfg += "VIEW view\nCONSTRAINT DepthBound\n"
    cfg += "INVARIANTS " + " ".join(invs if invs is not None else qstrace.INVARIANTS[prop]) + "\n"
    pl = props if props is not None else qstrace.PROPERTIES[prop]
    if pl:
        cfg += "PROPERTIES " + " ".join(pl) + "\n"
    cfg += "CHECK_DEADLOCK FALSE\n"
    sets = ["{%s}" % ", ".join(x) for x in (W, C, J) if len(x) > 1]
    module = MC_MODULE % {"name": "MCWorkQ", "mvs": ", ".join(mvs),
                          "sym": " \\cup ".join("Permutations(%s)" % s for s in sets), "depth": depth}
    return module, cfg


def run_mc(ctx, name, module, cfg, **kw):
    d = tlc.prepare_dir(ctx, "tlc-" + name)
    with open(os.path.join(d, "MCWorkQ.tla"), "w") as f:
        f.write(module)
    # tlc.run copies spec/*.tla again into the same dir (harmless) and runs the wrapper module
    return tlc.run(ctx, "MCWorkQ", cfg, name=name, **kw)


ACTIONS = ["DoAdd", "DoPull", "Deliver", "DoFinish", "DoKill", "AdvanceClock", "DoDisconnect"]


def model_check(ctx, prop, quick):
    restart = prop == "C18"
    wait = prop == "C17"
    depth = {"C16": (6, 8), "C17": (5, 7), "C18": (5, 7)}[prop][0 if quick else 1]
    module, cfg = mc_cfg(prop, depth, restart=restart, wait=wait,
                         killers=['"admin"'] if prop != "C17" else ['"admin"', "w1", "w2", "w3"])
    res = run_mc(ctx, "mc", module, cfg, timeout=3600 if not quick else 900, heap="16g")
    if not res.ok:
        ctx.machinery("the reference specification violates %s %s at depth <= %d: a defect of the specification\n%s"
                      % (res.kind, res.name, depth, res.out[-2500:]))
    ctx.cover(states=res.distinct, transitions=res.generated)
    ctx.set_cover(mc_depth=depth, mc_config="3 workers, 2 channels, 4 job ids, 2 priorities, timeouts {1,100}, "
                  "restart=%s wait=%s; symmetry on workers/channels/ids; exhaustive BFS to depth %d" % (restart, wait, depth))
    # coverage of actions on a smaller instance (coverage slows TLC down)
    module, cfg = mc_cfg(prop, 5, workers=2, ids=3, restart=restart, wait=wait)
    cov = run_mc(ctx, "cov", module, cfg, coverage=True, timeout=600)
    need = ACTIONS + (["Restart"] if restart else []) + (["DoWait"] if wait else [])
    missing = [a for a in need if cov.coverage.get(a, [0, 0])[1] == 0
               and cov.coverage.get(a[2:] if a.startswith("Do") else a, [0, 0])[1] == 0
               and cov.coverage.get(a + "To", [0, 0])[1] == 0]
    if missing:
        ctx.machinery("actions never taken in the bounded model: %s" % missing)
    ctx.set_cover(action_coverage={a: v for a, v in cov.coverage.items() if v[1] > 0 and a != "DepthBound"})
    # deep random behaviours
    module, cfg = mc_cfg(prop, 40, restart=restart, wait=wait, symmetry=False, reconnect=True)
    sim = run_mc(ctx, "sim", module, cfg.replace("CONSTRAINT DepthBound\n", ""), simulate=(40 if quick else 1000),
                 depth=40, timeout=1200, workers=ctx.ncpu)
    if not sim.ok:
        ctx.machinery("simulation of the reference specification violates %s %s\n%s" % (sim.kind, sim.name, sim.out[-2500:]))
    ctx.cover(transitions=sim.generated)
    ctx.set_cover(simulated_states=sim.generated)
    # non-vacuity: each defect class of the pinned code, re-introduced in the model, must be found
    nonvac = {}
    expect = {
        "C16": [("OverwriteMailbox", 4, "Exclusive"), ("DropOnKill", 6, "Exclusive")],
        "C17": [("DeliverDone", 5, "NeverFinished"), ("RequeueDone", 7, "FinishedNotRequeued")],
        "C18": [("OverwriteMailbox", 4, "Exclusive")],
    }[prop]
    for sw, dep, viol in expect:
        module, cfg = mc_cfg(prop, dep, workers=2, ids=2, switches={sw: True}, restart=restart,
                             invs=["Exclusive"], props=["NeverFinished", "FinishedNotRequeued"], tmos="{1}", prios="{0}")
        r = run_mc(ctx, "nv_" + sw, module, cfg, timeout=900)
        nonvac[sw] = [r.kind, r.name]
        if r.name != viol:
            ctx.machinery("non-vacuity: with %s=TRUE TLC should violate %s, got %s %s" % (sw, viol, r.kind, r.name))
    ctx.set_cover(nonvacuity=nonvac)


def _record(args):
    i, seed, length, opts = args
    rng = random.Random(seed * 1000003 + i)
    ops = qstrace.gen_sequence(rng, length, **opts)
    ps = seed * 7919 + i
    ev, er, ex = qstrace.record(ops, policy_seed=ps)
    return i, ps, ex, ev, er


def _record_many(jobs):
    return [_record(j) for j in jobs]


def trace_validate(ctx, prop, quick):
    n = 1500 if quick else 12000
    length = 16 if quick else 22
    opts = {"C16": dict(restart=False, wait=False, extras=False),
            "C17": dict(restart=False, wait=True, extras=True),
            "C18": dict(restart=True, wait=True, extras=False)}[prop]
    from .common import pool_map
    jobs = [(i, ctx.seed, length, opts) for i in range(n)]
    batches = [jobs[k:k + 100] for k in range(0, n, 100)]
    rec = [r for part in pool_map(ctx, _record_many, batches) for r in part]
    traces = []
    meta = []
    handoffs = restarts = kills = 0
    for i, ps, ex, ev, er in rec:
        ex = {"policy_seed": ps, "ops": ex}
        if er:
            ctx.violation("qs server raised during %s: %s" % (er[0][0], er[0][2][:80]),
                          "the real server raised an exception in an operation the model allows: %r" % (er[0],),
                          {"ops": ex["ops"], "policy_seed": ps, "errors": er})
            continue
        traces.append(ev)
        meta.append(ex)
        if any(e["op"] == "deliver" and e["k"] == "value" for e in ev):
            handoffs += 1
        if any(e["op"] == "deliver" and e["k"] == "kill" for e in ev):
            kills += 1
        if any(e["op"] == "restart" for e in ev):
            restarts += 1
    invs, props = qstrace.INVARIANTS[prop], qstrace.PROPERTIES[prop]
    total_acc = 0
    nstates = 0
    bs = 2500
    for b in range(0, len(traces), bs):
        part = traces[b:b + bs]
        acc, rej, states, gen = qstrace.validate(ctx, part, invs, props, name="tr%d" % b)
        total_acc += acc
        nstates += states
        for r in rej:
            tr = part[r["index"]]
            diag = qstrace.diagnose(ctx, tr, invs, props)
            key = "qs trace rejected: %s %s at op=%s%s" % (
                r["kind"], r["name"] or "", r["event"].get("op"), (" differs=" + diag) if diag else "")
            ctx.violation(key, "a recorded execution of the real queue server is not a behaviour of WorkQ.tla "
                               "(event %d: %r)" % (r["event_index"], r["event"]),
                          {"ops": meta[b + r["index"]]["ops"], "policy_seed": meta[b + r["index"]]["policy_seed"],
                           "rejected_event_index": r["event_index"], "event": r["event"],
                           "spec_state_before": r["spec_state"], "diagnosis": diag,
                           "trace": [{k: v for k, v in e.items() if k != "post"} for e in tr]})
    ctx.cover(traces_validated_against_impl=total_acc, transitions=nstates)
    ctx.set_cover(trace_states=nstates, traces_recorded=len(traces),
                  traces_with_handoff_to_blocked_puller=handoffs, traces_with_kill_delivery=kills,
                  traces_with_restart=restarts, trace_length=length)
    if traces:
        t = traces[len(traces) // 2]
        ctx.sample({"kind": "recorded trace (events without the post states)",
                    "events": [{k: v for k, v in e.items() if k != "post"} for e in t][:24]})
        ctx.sample({"kind": "one recorded post state", "post": t[min(3, len(t) - 1)]["post"]})


def rpc_framing(ctx):
    """Beyond the listed property: request/reply framing of handle_client (spec/RpcConn.tla)."""
    import copy
    from . import rpcconn
    logs = rpcconn.record()
    res, rejected, traces = rpcconn.validate(ctx, logs)
    if not res.ok:
        ctx.drift("RpcConn", "rpc framing: %s %s - a recorded connection of rpcserver.handle_client violates RpcConn.tla"
                  % (res.kind, res.name), {"logs": logs})
    for name in rejected:
        ctx.drift("RpcConn", "rpc framing: scenario %s rejected - "
                  "the socket-level events of one connection are not a behaviour of RpcConn.tla "
                  "(one reply per request in order, error replies for raising handlers, no reply to a line that "
                  "is not JSON, shutdown exactly once after EOF / protocol error, nothing sent afterwards)" % name,
                  {"scenario": name, "events": traces[name]})
    # sensitivity of the binding: corrupted copies of accepted traces must be rejected
    base = traces["pipelined"]
    bad = {
        "no_shutdown": [e for e in base if e["e"] != "shutdown"],
        "send_after_shutdown": base + [{"e": "send", "id": "a", "err": False}],
        "replies_swapped": [dict(e) for e in base],
        "reply_to_malformed": traces["malformed_first"][:1] + [{"e": "send", "id": "m2", "err": True}] + traces["malformed_first"][1:],
    }
    sends = [k for k, e in enumerate(bad["replies_swapped"]) if e["e"] == "send"]
    bad["replies_swapped"][sends[0]], bad["replies_swapped"][sends[1]] = bad["replies_swapped"][sends[1]], bad["replies_swapped"][sends[0]]
    res2, rej2, _ = rpcconn.validate(ctx, {k: [dict(e, keys=[]) for e in v] for k, v in bad.items()})
    if sorted(rej2) != sorted(bad) and res2.ok:
        ctx.machinery("RpcConn.tla accepted a corrupted trace: rejected only %s of %s" % (sorted(rej2), sorted(bad)))
    ctx.cover(traces_validated_against_impl=len(traces) - len(rejected), states=res.distinct, transitions=res.generated)
    ctx.set_cover(rpc_framing_scenarios=sorted(traces), rpc_framing_corruptions_rejected=sorted(rej2))
    ctx.sample({"kind": "socket-level events of one connection (scenario 'pipelined')", "events": base})


def run(ctx, prop):
    import time
    quick = ctx.tier == "quick"
    t0 = time.time()
    model_check(ctx, prop, quick)
    t1 = time.time()
    trace_validate(ctx, prop, quick)
    t2 = time.time()
    from . import qsreplay
    qsreplay.replay_behaviours(ctx, prop, quick)
    if prop == "C16":
        rpc_framing(ctx)
    if prop == "C17":
        # beyond the listed property: the client / worker side of the protocol (Slave.tla, RpcClient.tla)
        from . import qsclient
        qsclient.run(ctx, quick)
    ctx.set_cover(phase_seconds={"model_check": round(t1 - t0, 1), "trace_validation": round(t2 - t1, 1),
                                 "replay": round(time.time() - t2, 1)})
    ctx.assume("gevent hub callbacks run FIFO (the driver's batches rely on it; asserted by the replay comparison)",
               "real sockets are replaced by in-process connections that behave like rpcserver.handle_client's greenlet",
               "time.time() inside qs.jobs is the model clock", "TLC and the CommunityModules")


def replay(ctx, prop, path):
    with open(path) as f:
        rec = json.load(f)
    if "hist" in rec["replay"]:
        from . import qsreplay
        r = qsreplay.replay_one(rec["replay"]["hist"])
        if r.get("ok"):
            print("replay: the real server now follows this TLC behaviour (%d steps compared)" % r["steps"])
        else:
            op = r.get("op", {})
            ctx.violation("qs replay differs: op=%s fields=%s" % (op.get("op"), ",".join(r.get("differs", [r.get("problem", "?")]))),
                          "the real queue server does not follow the TLC behaviour at step %s" % r.get("step"),
                          {"behaviour": [h["last"] for h in rec["replay"]["hist"]], "disagreement": r, "hist": rec["replay"]["hist"]})
        return
    ops = rec["replay"]["ops"]
    ev, er, ex = qstrace.record(ops, policy_seed=rec["replay"].get("policy_seed", 0))
    if er:
        ctx.violation("qs server raised during %s: %s" % (er[0][0], er[0][2][:80]), repr(er[0]), {"ops": ex, "errors": er})
        return
    acc, rej, states, gen = qstrace.validate(ctx, [ev], qstrace.INVARIANTS[prop], qstrace.PROPERTIES[prop], name="replay")
    for r in rej:
        diag = qstrace.diagnose(ctx, ev, qstrace.INVARIANTS[prop], qstrace.PROPERTIES[prop])
        ctx.violation("qs trace rejected: %s %s at op=%s%s" % (r["kind"], r["name"] or "", r["event"].get("op"),
                                                               (" differs=" + diag) if diag else ""),
                      "replayed sequence is still rejected", {"ops": ex, "event": r["event"]})
    if not rej:
        print("replay: the sequence is now accepted by the specification")
