"""Synthetic MediaWiki for C11: generator, API double, deterministic network, tracer, read-back.

The real `mwlib.apps.make_nuwiki.make_nuwiki` is run against `SynthApi`, a subclass of the real
`mwlib.network.sapi.MwApi` whose lowest method `_fetch` answers from a synthetic wiki -- URL
building, `_do_request` continuation merging, the API semaphores and the whole `Fetcher` are the
real code.  Image files come through the real `download_to_file` path with a fake streaming
client.  All "network" waits go through `Net`: a response is released only when the gevent loop
is idle, one at a time (policy "burst": up to three at once), in an order drawn from the case's seed -- greenlet interleavings vary
with the seed and are exactly reproducible (no wall clock involved).  If the loop is idle,
nothing is in flight and make_nuwiki has not returned, the run is a hang (termination failure).

The wiki semantics implemented here are written down in spec/WikiApi.tla; the JSON form of a
case (`wiki`, `book`, `cfg`) is what FetcherTrace.tla reads.

Abstract vocabulary shared with the spec (strings are opaque atoms for TLC):
  page title            "Alpha", "Vorlage:T1"
  image title           local spelling "Datei:X.png" (what prop=images reports)
  text atom             revid of the revision whose server-expanded text it is (0 = none,
                        UNKNOWN = some other text)
  file / desc atom      1-based index of the image in wiki.images (0 = none, UNKNOWN = other)
"""
import json
import os
import random
import sys
from urllib import parse

UNKNOWN = 999999
LOCAL_HOST = "http://local.synth"
SHARED_HOST = "http://shared.synth"
UPLOAD_HOST = "http://upload.synth"

ART_NAMES = ["Alpha", "Beta Two", "Gamma", "Delta", "Epsilon", "Zeta", "Eta", "Theta"]
RED_NAMES = ["Red1", "Red2", "Red3"]
TPL_NAMES = ["T1", "T2", "T3"]
IMG_NAMES = ["X.png", "Y.jpg", "Pic One.png", "W.png", "V.jpg", "U.png"]
USERS = ["Alice", "Bob", "Carol", "Dave", "Erin"]
BOTS = ["FixBot", "Linkbot"]


# ----------------------------------------------------------------------------------- siteinfo
def _siteinfo(lang):
    from mwlib.network import siteinfo
    return siteinfo.get_siteinfo(lang)


def nsname(lang, num):
    return _siteinfo(lang)["namespaces"][str(num)]["*"]


# ----------------------------------------------------------------------------------- generator
def gen_case(rng, big=False, cid=0):
    """One (wiki, book, cfg).  Bounded family: small = <=3 articles, <=2 templates, <=2 images,
    <=1 redirect structure, <=2 revisions, a missing page, limits in {1,2};  big = <=8 pages,
    <=6 images, limits 1..50."""
    local = rng.choice(["de", "en"])
    shared = rng.choice(["en", "fr"])
    filens = nsname(local, 6)
    tplns = nsname(local, 10)
    nart = rng.randint(1, 8 if big else 3)
    ntpl = rng.randint(0, 3 if big else 2)
    nimg = rng.randint(0, 6 if big else 2)
    maxrev = 3 if big else 2
    revid = [10]

    def newrevs():
        out = []
        for _ in range(rng.randint(1, maxrev)):
            revid[0] += rng.randint(1, 3)
            out.append(revid[0])
        return out

    def contrib():
        users = rng.sample(USERS, rng.randint(0, 4 if big else 3))
        bots = rng.sample(BOTS, rng.randint(0, 2 if big else 1))
        return sorted(users), sorted(bots), rng.choice([0, 0, 1, 3])

    images = []
    for k in range(nimg):
        u, b, a = contrib()
        images.append({"title": "%s:%s" % (filens, IMG_NAMES[k]), "name": IMG_NAMES[k],
                       "shared": rng.random() < 0.5, "cats": rng.randint(0, 3),
                       "users": u, "bots": b, "anon": a})
    imgtitles = [i["title"] for i in images]
    ghostimg = "%s:Nofile.png" % filens          # linked, but no such file anywhere
    pages = []
    tpls = ["%s:%s" % (tplns, TPL_NAMES[k]) for k in range(ntpl)]
    # templates form a DAG: template k may use templates > k (multi-level)
    for k, t in enumerate(tpls):
        u, b, a = contrib()
        pages.append({"title": t, "ns": 10, "revs": newrevs(), "redirect": "",
                      "uses": [x for x in tpls[k + 1:] if rng.random() < 0.7],
                      "images": [x for x in imgtitles if rng.random() < 0.5],
                      "users": u, "bots": b, "anon": a})
    arts = ART_NAMES[:nart]
    for t in arts:
        u, b, a = contrib()
        imgs = [x for x in imgtitles if rng.random() < 0.6]
        if rng.random() < 0.1:
            imgs.append(ghostimg)
        pages.append({"title": t, "ns": 0, "revs": newrevs(), "redirect": "",
                      "uses": [x for x in tpls if rng.random() < 0.5], "images": imgs,
                      "users": u, "bots": b, "anon": a})
    # at most one redirect structure: single hop, dead, chain (2 or 3 hops) or cycle
    kind = rng.choice(["none", "single", "single", "single", "dead", "chain", "cycle"])
    reds = []
    ghost = "Ghost"
    if kind == "single":
        reds = [("Red1", rng.choice(arts))]
    elif kind == "dead":
        reds = [("Red1", ghost)]
    elif kind == "chain":
        reds = [("Red1", "Red2"), ("Red2", rng.choice(arts))]
        if big and rng.random() < 0.4:
            reds = [("Red1", "Red2"), ("Red2", "Red3"), ("Red3", rng.choice(arts))]
    elif kind == "cycle":
        reds = [("Red1", "Red2"), ("Red2", "Red1")]
        if rng.random() < 0.3:
            reds = [("Red1", "Red1")]
    for (src, dst) in reds:
        u, b, a = contrib()
        pages.append({"title": src, "ns": 0, "revs": newrevs(), "redirect": dst, "uses": [],
                      "images": [], "users": u, "bots": b, "anon": a})
    wiki = {"local": local, "shared": shared, "filens": filens, "pages": pages, "images": images}
    # ---- the book
    bypage = {p["title"]: p for p in pages}
    cands = arts + [r[0] for r in reds] + [ghost]
    n = rng.randint(1, min(len(cands), 8 if big else 3))
    chosen = rng.sample(cands, n)
    if reds and rng.random() < 0.7 and reds[0][0] not in chosen:
        chosen[rng.randrange(len(chosen))] = reds[0][0]
    book = []
    redirect_targets = {dst for (_, dst) in reds}
    for t in chosen:
        rev = 0
        p = bypage.get(t)
        if p is not None and rng.random() < 0.45:
            rev = rng.choice(p["revs"])
            # quantifier's exclusion: a redirect's target is not at the same time listed with an
            # older pinned revision
            if t in redirect_targets and rev != p["revs"][-1]:
                rev = p["revs"][-1] if rng.random() < 0.5 else 0
        book.append({"title": t, "rev": rev})
    if rng.random() < 0.15:
        # the same article twice (by title and pinned), allowed by the statement
        t = rng.choice(arts)
        if t not in redirect_targets:
            book.append({"title": t, "rev": rng.choice(bypage[t]["revs"])})
            book.append({"title": t, "rev": 0})
    hi = 50 if big else 2
    lim = lambda: (rng.randint(1, hi) if rng.random() < 0.5 else rng.randint(1, min(hi, 3)))  # noqa: E731
    cfg = {"reqlimit": lim(), "reslimit": lim(), "fetch_images": rng.random() < 0.8,
           "policy": rng.choice(["rand", "rand", "fifo", "lifo", "burst", "burst"]), "chapters": rng.random() < 0.3, "netseed": rng.randrange(1 << 30)}
    return {"id": cid, "wiki": wiki, "book": book, "cfg": cfg}


def image_order(wiki):
    """Every image title mentioned anywhere, existing files first: the order the API lists them."""
    out = [i["title"] for i in wiki["images"]]
    for p in wiki["pages"]:
        for i in p["images"]:
            if i not in out:
                out.append(i)
    return out


# ----------------------------------------------------------------------------------- the wiki
class SynthWiki:
    """Answers exactly the requests sapi.py issues (spec/WikiApi.tla is the written contract)."""

    def __init__(self, wiki):
        self.w = wiki
        self.local = wiki["local"]
        self.shared = wiki["shared"]
        self.pages = {p["title"]: p for p in wiki["pages"]}
        self.images = {i["title"]: i for i in wiki["images"]}
        self.pageid = {p["title"]: 100 + k for k, p in enumerate(wiki["pages"])}
        self.byrev = {}
        for p in wiki["pages"]:
            for r in p["revs"]:
                self.byrev[r] = p
        self.userid = {n: 1000 + k for k, n in enumerate(USERS + BOTS)}
        self.imgorder = image_order(wiki)
        self.requests = []       # (host, key) log, in arrival order

    # -- content ------------------------------------------------------------------------------
    def raw_text(self, page, revid):
        if page["redirect"]:
            return "#REDIRECT [[%s]]" % page["redirect"]
        parts = ["Text of %s revision %d." % (page["title"], revid)]
        for t in page["uses"]:
            parts.append("{{%s}}" % t.split(":", 1)[1])
        for i in page["images"]:
            parts.append("[[%s|thumb|caption]]" % i)
        return "\n".join(parts) + "\n"

    def expand(self, text, depth=0):
        """Server-side template expansion of wikitext (templates are transcluded by their
        current revision; {{:X}} transcludes main-namespace page X and follows one redirect)."""
        import re
        if depth > 8:
            return text
        tplns = nsname(self.local, 10)

        def sub(m):
            name = m.group(1).strip()
            if name.startswith(":"):
                title = name[1:]
            else:
                title = "%s:%s" % (tplns, name)
            p = self.pages.get(title)
            if p is None:
                return "[[:%s]]" % title
            if p["redirect"]:
                q = self.pages.get(p["redirect"])
                if q is None:
                    return "[[:%s]]" % p["redirect"]
                p = q
                if p["redirect"]:
                    return self.raw_text(p, p["revs"][-1])       # second hop is not followed
            return self.expand(self.raw_text(p, p["revs"][-1]), depth + 1)
        return re.sub(r"\{\{([^{}|]+)\}\}", sub, text)

    def expanded_text(self, revid):
        p = self.byrev[revid]
        return self.expand(self.raw_text(p, revid))

    def imagelinks(self, title):
        """What prop=images reports: links of the current text incl. those through templates."""
        p = self.pages.get(title)
        if p is None or p["redirect"]:
            return []
        seen, out, todo = set(), set(), [title]
        while todo:
            t = todo.pop()
            if t in seen or t not in self.pages:
                continue
            seen.add(t)
            q = self.pages[t]
            if q["redirect"]:
                continue
            out.update(q["images"])
            todo.extend(q["uses"])
        return sorted(out)

    def image_bytes(self, title):
        return ("IMAGEDATA<%s>" % title).encode("utf-8") * 3

    def desc_text(self, title):
        return "Description page of %s\n{{Information|Description=synthetic}}\n" % self.images[title]["name"]

    def thumb_url(self, img):
        n = parse.quote(img["name"].replace(" ", "_"))
        return "%s/thumb/%s/800px-%s" % (UPLOAD_HOST, n, n)

    def desc_url(self, img):
        if img["shared"]:
            return "%s/wiki/%s:%s" % (SHARED_HOST, nsname(self.shared, 6), parse.quote(img["name"].replace(" ", "_")))
        return "%s/wiki/%s:%s" % (LOCAL_HOST, nsname(self.local, 6), parse.quote(img["name"].replace(" ", "_")))

    # -- request dispatch -----------------------------------------------------------------------
    def answer(self, host, params):
        """-> (key, response dict).  key is the abstract name of the request (for the trace)."""
        action = params.get("action")
        if action == "query" and params.get("meta") == "siteinfo":
            lang = self.local if host == "local" else self.shared
            return ["siteinfo"], {"query": _siteinfo(lang)}
        if host == "shared":
            return self._answer_repo(params, self.shared, True)
        if action == "expandtemplates":
            text = params.get("text", "")
            return ["expand", params.get("title", "")], {"expandtemplates": {"wikitext": self.expand(text)}}
        if action == "parse":
            return self._parse(params)
        if action == "query":
            prop = params.get("prop", None)
            if prop == "revisions" and "revids" in params and params.get("rvprop") == "content":
                return self._revcontent(params)
            if prop in ("images", "") and "rvprop" in params and "imlimit" in params and params.get("rvprop") == "ids":
                return self._used(params)
            if prop == "imageinfo|info":
                return self._imageinfo(params)
            if prop == "contributors":
                return self._contributors(params, self.local, False)
            if prop in ("revisions", "categories"):
                return self._answer_repo(params, self.local, False)
        return ["unknown"], {"error": {"code": "unknown", "info": "synthetic wiki: unsupported request %r" % (params,)}}

    def _page_stub(self, title, p):
        return {"pageid": self.pageid[title], "ns": p["ns"], "title": title}

    def _parse(self, params):
        if "oldid" in params:
            rev = int(params["oldid"])
            p = self.byrev.get(rev)
            key = ["parse", "oldid", rev]
            if p is None:
                return key, {"error": {"code": "nosuchrevid", "info": "There is no revision with ID %d." % rev}}
        else:
            title = params.get("page", "")
            key = ["parse", "page", title]
            p = self.pages.get(title)
            if p is None:
                return key, {"error": {"code": "missingtitle", "info": "The page you specified doesn't exist."}}
            hops = 0
            while p["redirect"] and hops < 1:
                q = self.pages.get(p["redirect"])
                hops += 1
                if q is None:
                    return key, {"error": {"code": "missingtitle", "info": "The page you specified doesn't exist."}}
                p = q
            rev = p["revs"][-1]
        html = "<div class=\"mw-parser-output\"><p>HTML of %s revision %d</p></div>" % (p["title"], rev)
        return key, {"parse": {"title": p["title"], "pageid": self.pageid[p["title"]], "revid": rev,
                               "text": {"*": html}}}

    def _revcontent(self, params):
        revs = [int(x) for x in params["revids"].split("|") if x]
        key = ["revcontent", revs]
        pages, bad = {}, {}
        for r in revs:
            p = self.byrev.get(r)
            if p is None:
                bad[str(r)] = {"revid": r}
                continue
            e = pages.setdefault(str(self.pageid[p["title"]]), dict(self._page_stub(p["title"], p), revisions=[]))
            e["revisions"].append({"contentformat": "text/x-wiki", "contentmodel": "wikitext", "*": self.raw_text(p, r)})
        q = {}
        if pages:
            q["pages"] = pages
        if bad:
            q["badrevids"] = bad
        return key, {"query": q}

    def _resolve_titles(self, titles):
        """MediaWiki `redirects=1`: follow redirect chains, report every hop once; a circular
        chain resolves to nothing.  -> (redirects list, final titles in order, no duplicates)."""
        redirects, final = [], []
        seen_hops = set()
        for t in titles:
            cur, visited = t, set()
            ok = True
            while cur in self.pages and self.pages[cur]["redirect"]:
                if cur in visited:
                    ok = False
                    break
                visited.add(cur)
                nxt = self.pages[cur]["redirect"]
                if (cur, nxt) not in seen_hops:
                    seen_hops.add((cur, nxt))
                    redirects.append({"from": cur, "to": nxt})
                cur = nxt
            if ok and cur not in final:
                final.append(cur)
        return redirects, final

    def _window(self, entries, limit, cont, contname, modname):
        """Legacy result window: `entries` = ordered list of (pageid, sortkey, payload); returns
        (entries in this window, query-continue dict or None)."""
        start = 0
        if cont:
            pid, _, sk = cont.partition("|")
            for k, e in enumerate(entries):
                if (e[0], e[1]) >= (int(pid), sk):
                    start = k
                    break
            else:
                start = len(entries)
        win = entries[start:start + limit]
        qc = None
        if start + limit < len(entries):
            nxt = entries[start + limit]
            qc = {modname: {contname: "%d|%s" % (nxt[0], nxt[1])}}
        return win, qc

    def _used(self, params):
        q = {}
        if "titles" in params:
            titles = [t for t in params["titles"].split("|") if t]
            key = ["used", "titles", titles, params.get("imcontinue", "")]
            if params.get("redirects"):
                reds, final = self._resolve_titles(titles)
                if reds:
                    q["redirects"] = reds
            else:
                final = titles
            plist = final
        else:
            revs = [int(x) for x in params["revids"].split("|") if x]
            key = ["used", "revids", revs, params.get("imcontinue", "")]
            plist, bad = [], {}
            for r in revs:
                p = self.byrev.get(r)
                if p is None:
                    bad[str(r)] = {"revid": r}
                elif p["title"] not in plist:
                    plist.append(p["title"])
            if bad:
                q["badrevids"] = bad
        pages = {}
        neg = 0
        for t in plist:
            p = self.pages.get(t)
            if p is None:
                neg -= 1
                pages[str(neg)] = {"ns": 0, "title": t, "missing": ""}
            else:
                pages[str(self.pageid[t])] = self._page_stub(t, p)
        qc = None
        if params.get("prop") == "images":
            entries = []
            for t in plist:
                if t in self.pages:
                    for i in self.imagelinks(t):
                        entries.append((self.pageid[t], "%04d" % self.imgorder.index(i), i))
            entries.sort(key=lambda e: (e[0], e[1]))
            win, qc = self._window(entries, int(params.get("imlimit", 10)), params.get("imcontinue"), "imcontinue", "images")
            for (pid, _, i) in win:
                pages[str(pid)].setdefault("images", []).append({"ns": 6, "title": i})
        if pages:
            q["pages"] = pages
        res = {"query": q}
        if qc:
            res["query-continue"] = qc
        return key, res

    def _imageinfo(self, params):
        titles = [t for t in params["titles"].split("|") if t]
        key = ["imageinfo", titles]
        pages = {}
        neg = 0
        for t in titles:
            img = self.images.get(t)
            neg -= 1
            if img is None:
                pages[str(neg)] = {"ns": 6, "title": t, "missing": "", "imagerepository": ""}
                continue
            e = {"ns": 6, "title": t, "imagerepository": "shared" if img["shared"] else "local",
                 "imageinfo": [{"url": "%s/%s" % (UPLOAD_HOST, parse.quote(img["name"].replace(" ", "_"))),
                                "thumburl": self.thumb_url(img), "thumbwidth": 800, "thumbheight": 600,
                                "descriptionurl": self.desc_url(img), "size": len(self.image_bytes(t)),
                                "width": 1600, "height": 1200, "sha1": "da39a3ee", "user": "Alice",
                                "comment": "synthetic upload"}],
                 "fullurl": self.desc_url(img) if not img["shared"] else "%s/wiki/%s" % (LOCAL_HOST, parse.quote(t.replace(" ", "_")))}
            if img["shared"]:
                e["missing"] = ""
                e["known"] = ""
                pages[str(neg)] = e
            else:
                e["pageid"] = 500 + self.w["images"].index(img)
                pages[str(e["pageid"])] = e
        return key, {"query": {"pages": pages}}

    def _repo_image(self, title, lang, shared):
        """Image record for a description-page title as spelled on the repository `lang`."""
        ns, _, name = title.partition(":")
        if ns != nsname(lang, 6):
            return None
        for img in self.w["images"]:
            if img["name"] == name and img["shared"] == shared:
                return img
        return None

    def _answer_repo(self, params, lang, shared):
        """Description pages (prop=revisions / prop=categories) and their contributors."""
        prop = params.get("prop")
        if prop == "contributors":
            return self._contributors(params, lang, shared)
        titles = [t for t in params.get("titles", "").split("|") if t]
        pages, neg = {}, 0
        entries = []
        for t in titles:
            img = self._repo_image(t, lang, shared)
            if img is None:
                neg -= 1
                pages[str(neg)] = {"ns": 6, "title": t, "missing": ""}
                continue
            pid = 700 + self.w["images"].index(img)
            e = {"pageid": pid, "ns": 6, "title": t}
            if prop == "revisions":
                e["revisions"] = [{"revid": 9000 + pid, "parentid": 0, "user": "Alice",
                                   "timestamp": "2020-01-01T00:00:00Z", "contentformat": "text/x-wiki",
                                   "contentmodel": "wikitext", "*": self.desc_text(img["title"])}]
            else:
                for c in range(img["cats"]):
                    entries.append((pid, "Cat%d" % c, "Category:Cat%d" % c))
            pages[str(pid)] = e
        qc = None
        if prop == "revisions":
            key = ["descrev", "shared" if shared else "local", titles]
        else:
            key = ["desccat", "shared" if shared else "local", titles, params.get("clcontinue", "")]
            entries.sort(key=lambda x: (x[0], x[1]))
            win, qc = self._window(entries, int(params.get("cllimit", 10)), params.get("clcontinue"), "clcontinue", "categories")
            for (pid, _, c) in win:
                pages[str(pid)].setdefault("categories", []).append({"ns": 14, "title": c})
        res = {"query": {"pages": pages}}
        if qc:
            res["query-continue"] = qc
        return key, res

    def _contributors(self, params, lang, shared):
        titles = [t for t in params.get("titles", "").split("|") if t]
        host = "shared" if shared else "local"
        key = ["contributors", host, titles, params.get("pccontinue", "")]
        q = {}
        pages, neg = {}, 0
        entries = []
        first = not params.get("pccontinue")
        if not shared:
            reds, final = self._resolve_titles(titles) if params.get("redirects") else ([], titles)
            if reds:
                q["redirects"] = reds
        else:
            final = titles
        for t in final:
            rec, pid, ns = None, None, 0
            if not shared and t in self.pages:
                rec, pid, ns = self.pages[t], self.pageid[t], self.pages[t]["ns"]
            else:
                img = self._repo_image(t, lang, shared)
                if img is not None:
                    rec, pid, ns = img, 700 + self.w["images"].index(img), 6
            if rec is None:
                neg -= 1
                pages[str(neg)] = {"ns": 6 if ":" in t else 0, "title": t, "missing": ""}
                continue
            e = {"pageid": pid, "ns": ns, "title": t}
            if first:
                # MediaWiki reports anoncontributors with the first batch only
                e["anoncontributors"] = rec["anon"]
            pages[str(pid)] = e
            for n in sorted(rec["users"] + rec["bots"], key=lambda n: self.userid[n]):
                entries.append((pid, "%06d" % self.userid[n], n))
        entries.sort(key=lambda x: (x[0], x[1]))
        win, qc = self._window(entries, int(params.get("pclimit", 10)), params.get("pccontinue"), "pccontinue", "contributors")
        for (pid, uid, n) in win:
            pages[str(pid)].setdefault("contributors", []).append({"userid": int(uid), "name": n})
        if pages:
            q["pages"] = pages
        res = {"query": q}
        if qc:
            res["query-continue"] = qc
        return key, res


# ----------------------------------------------------------------------------------- expected-side helpers
def text_atoms(sw):
    """concrete expanded text -> revid atom (first revid serving that text)."""
    out = {}
    for r in sorted(sw.byrev):
        out.setdefault(sw.expanded_text(r), r)
    return out


# ----------------------------------------------------------------------------------- network
class Hang(Exception):
    pass


class HarnessMismatch(Exception):
    """The tracing harness does not fit the code under test (renamed seam, work item it cannot
    map): a machinery failure, never a verdict about the property."""


class Net:
    """Deterministic network: responses are released one at a time, only when the loop is idle."""

    def __init__(self, seed, policy):
        self.rng = random.Random(seed)
        self.policy = policy
        self.pending = []
        self.released = 0
        self.hang = False

    def wait(self, label):
        import gevent.event
        ev = gevent.event.Event()
        self.pending.append((label, ev))
        ev.wait()

    def pump(self, main_greenlet, finished):
        import gevent
        idle = 0
        while not finished():
            gevent.idle()
            if finished():
                break
            if self.pending:
                idle = 0
                if self.policy == "fifo":
                    k = 0
                elif self.policy == "lifo":
                    k = len(self.pending) - 1
                else:
                    k = self.rng.randrange(len(self.pending))
                _, ev = self.pending.pop(k)
                self.released += 1
                ev.set()
                if self.policy == "burst":
                    # several responses arrive in the same loop iteration: the later ones are
                    # processed while greenlets spawned by the earlier ones have not started yet
                    for _ in range(self.rng.randint(0, 2)):
                        if self.pending:
                            _, ev = self.pending.pop(self.rng.randrange(len(self.pending)))
                            self.released += 1
                            ev.set()
            else:
                idle += 1
                if idle > 50:
                    self.hang = True
                    main_greenlet.throw(Hang("idle loop, nothing in flight, fetch not finished"))
                    return


# ----------------------------------------------------------------------------------- tracer
class Tracer:
    """One event per atomic stretch of a work item (from resume to the next yield), recorded at
    the greenlet switch, with the small shared state at that moment."""

    def __init__(self):
        self.events = []
        self.items = {}          # id -> [kind, arg]
        self.bound = {}          # greenlet -> id
        self.ops = {}            # id -> ops of the running stretch
        self.wait = {}           # id -> what the item is blocked on
        self.fetcher = None
        self.nextid = 0
        self.enabled = False
        self.sem_inflight = {}   # api host -> number of do_request holders
        self.harness_errors = []  # exceptions raised inside the harness's own doubles

    def new_item(self, kind, arg):
        self.nextid += 1
        self.items[self.nextid] = [kind, arg]
        return self.nextid

    def bind(self, g, iid):
        self.bound[g] = iid
        self.ops.setdefault(iid, [])

    def cur(self):
        import gevent
        return self.bound.get(gevent.getcurrent())

    def op(self, *o):
        iid = self.cur()
        if iid is None:
            iid = 0                          # main greenlet (Fetcher.__init__, finish)
        self.ops.setdefault(iid, []).append(list(o))

    def set_wait(self, w):
        iid = self.cur()
        if iid is not None:
            self.wait[iid] = w

    def snapshot(self):
        f = self.fetcher
        if f is None:
            return {}
        sched = []
        for s in f.scheduled:
            if isinstance(s, tuple):
                sched.append("g:" + s[1])
            elif isinstance(s, str) and s.startswith("-d-"):
                sched.append("d:" + s[3:])
            else:
                sched.append("i:" + str(s))
        api = f.api
        sem = api.limit_fetch_semaphore
        desc = {"local": None, "shared": None}
        for path, lst in f.imagedescription_todo.items():
            desc["shared" if path.startswith(SHARED_HOST) else "local"] = [x[0] for x in lst]
        sems = api.api_request_limit
        for url, a in f.api_cache.items():
            if url.startswith(SHARED_HOST) and a.limit_fetch_semaphore is not None:
                sems = a.limit_fetch_semaphore.counter
        return {"sched": sorted(sched),
                "todoImg": list(f.imageinfo_todo),
                "todoRev": [str(x) for x in f.revids_todo],
                "todoPg": list(f.pages_todo),
                "hasL": desc["local"] is not None, "descL": desc["local"] or [],
                "hasS": desc["shared"] is not None, "descS": desc["shared"] or [],
                "redir": sorted([k, v] for k, v in f.redirects.items()),
                "seml": sem.counter if sem is not None else 0,
                "sems": sems,
                "hsem": f.api_semaphore.counter,
                "dp": bool(f.dispatch_event.is_set())}

    def flush(self, g):
        iid = self.bound.get(g)
        if iid is None:
            return
        ops = self.ops.get(iid) or []
        dead = bool(g.dead)
        if not ops and not dead:
            return                            # woken and blocked again without doing anything
        self.ops[iid] = []
        kind, arg = self.items[iid] if iid in self.items else ["main", ""]
        ev = {"op": "step", "id": iid, "kind": kind, "arg": arg, "ops": ops,
              "wait": "done" if dead else self.wait.get(iid, "other"), "st": self.snapshot()}
        self.events.append(ev)
        if dead:
            del self.bound[g]

    def on_switch(self, event, args):
        if not self.enabled:
            return
        origin, _target = args
        if origin in self.bound:
            self.flush(origin)

    def main_event(self, name, **extra):
        ops = self.ops.get(0) or []
        self.ops[0] = []
        ev = {"op": name, "id": 0, "kind": "main", "arg": "", "ops": ops, "wait": "other", "st": self.snapshot()}
        ev.update(extra)
        self.events.append(ev)


# ----------------------------------------------------------------------------------- running the real code
def run_case(case, outdir, log_trace=True):
    """Run the real make_nuwiki for one case; returns {status, events, final, requests, ...}.
    Must be called in a process where mwlib's fetch machinery may be patched (a pool worker)."""
    import gevent
    import greenlet
    from gevent.lock import Semaphore

    from mwlib.apps import make_nuwiki as mn
    from mwlib.core import metabook
    from mwlib.network import fetch, sapi
    from mwlib.utils import conf

    wiki, book, cfg = case["wiki"], case["book"], case["cfg"]
    sw = SynthWiki(wiki)
    net = Net(cfg["netseed"], cfg["policy"])
    tr = Tracer()

    for opt, val in (("api_request_limit", cfg["reqlimit"]), ("api_result_limit", cfg["reslimit"]),
                     ("rvlimit", cfg["reslimit"]), ("max_connections", 10), ("max_retry_count", 0)):
        if not conf.config.has_section("fetch"):
            conf.config.add_section("fetch")
        conf.config["fetch"][opt] = str(val)

    import inspect

    def call_args(real, *a, **k):
        """Arguments of a call to a harness double, named as the REAL method names them (the doubles
        accept whatever the code passes -- a new keyword must not break them)."""
        try:
            return inspect.signature(real).bind(*a, **k).arguments
        except TypeError:
            return dict(k)

    def double(name):
        """An exception raised inside a harness double is the harness's failure, reported as such."""
        def deco(f):
            def g(*a, **k):
                try:
                    return f(*a, **k)
                except Exception as e:                      # noqa: BLE001  (GreenletExit / Hang pass)
                    tr.harness_errors.append("harness double %s failed: %s: %s" % (name, type(e).__name__, str(e)[:300]))
                    raise
            g.__name__ = getattr(f, "__name__", name)
            return g
        return deco

    real_fetch = sapi.MwApi._fetch

    class SynthApi(sapi.MwApi):
        @double("SynthApi._fetch")
        def _fetch(self, url, *args, **kw):
            got = call_args(real_fetch, self, url, *args, **kw)
            method, data = got.get("method", "GET"), got.get("data")
            host = "shared" if str(self.apiurl).startswith(SHARED_HOST) else "local"
            if str(method).upper() == "POST":
                qs = data.decode("utf-8") if isinstance(data, bytes) else data
            else:
                qs = parse.urlparse(url).query
            params = {k: v[0] for k, v in parse.parse_qs(qs, keep_blank_values=True).items()}
            key, resp = sw.answer(host, params)
            sw.requests.append([host] + key)
            tr.op("req", host, key)
            tr.set_wait("net")
            net.wait(key)
            tr.op("resp", host, key)
            return json.dumps(resp).encode("utf-8")

    class FakeResponse:
        def __init__(self, url):
            self.url = url

        def __enter__(self):
            return self

        def __exit__(self, *a):
            return False

        def raise_for_status(self):
            pass

        def iter_bytes(self, *a, **k):
            title = None
            for t, img in sw.images.items():
                if sw.thumb_url(img) == self.url:
                    title = t
            tr.op("get", title or self.url)
            tr.set_wait("net")
            net.wait(["get", self.url])
            tr.op("got", title or self.url)
            data = sw.image_bytes(title) if title else b""
            for k in range(0, len(data), 16):
                yield data[k:k + 16]

    class FakeClient:
        def stream(self, method, url, *a, **k):
            return FakeResponse(url)

    RealFsOutput = fetch.FsOutput

    class TraceFsOutput(RealFsOutput):
        @double("TraceFsOutput.write_expanded_page")
        def write_expanded_page(self, *a, **k):
            got = call_args(RealFsOutput.write_expanded_page, self, *a, **k)
            tr.op("wexp", got.get("title"), got.get("revid") or 0)
            return super().write_expanded_page(*a, **k)

        @double("TraceFsOutput.write_pages")
        def write_pages(self, *a, **k):
            data = call_args(RealFsOutput.write_pages, self, *a, **k).get("data") or {}
            tr.op("wpages", sorted(p.get("title", "") for p in data.get("pages", {}).values() if p.get("revisions")))
            return super().write_pages(*a, **k)

        @double("TraceFsOutput.set_db_key")
        def set_db_key(self, *a, **k):
            got = call_args(RealFsOutput.set_db_key, self, *a, **k)
            tr.op("db", got.get("name"), str(got.get("key")))
            return super().set_db_key(*a, **k)

        @double("TraceFsOutput.write_redirects")
        def write_redirects(self, *a, **k):
            red = call_args(RealFsOutput.write_redirects, self, *a, **k).get("redirects") or {}
            tr.op("wredir", sorted([x, y] for x, y in red.items()))
            return super().write_redirects(*a, **k)

    def host_of(api):
        return "shared" if str(getattr(api, "apiurl", "")).startswith(SHARED_HOST) else "local"

    def generic(v):
        if isinstance(v, bool):
            return ["b", v]
        if isinstance(v, (str, int)):
            return ["s", str(v)]
        if isinstance(v, (list, tuple, set, frozenset)):
            return ["l", [str(x) for x in v]]
        if isinstance(v, sapi.MwApi):
            return ["api", host_of(v)]
        return ["o", repr(v)[:60]]

    def argrepr(fun, args, kw):
        """A work item is described by its arguments only (by type, not by method name); what KIND
        of item it is, is inferred afterwards from what it does (to_trace / infer_kinds)."""
        return fun.__name__, [generic(x) for x in args] + [["kw", k] + generic(v) for k, v in sorted(kw.items())]

    # the seams this harness hooks must exist; a missing one is a mismatch between harness and code
    # (machinery failure), never a verdict
    for obj, names in ((fetch, ("Fetcher", "FsOutput", "download_to_file", "_get_download_client", "Semaphore")),
                       (fetch.Fetcher, ("_refcall_noinc", "dispatch", "finish")),
                       (fetch.FsOutput, ("write_expanded_page", "write_pages", "set_db_key", "write_redirects")),
                       (sapi, ("MwApi", "Semaphore")), (sapi.MwApi, ("_fetch", "set_limit", "do_request")),
                       (mn, ("make_nuwiki", "mwapi", "fetch"))):
        for n in names:
            if not hasattr(obj, n):
                raise HarnessMismatch("the seam %s.%s the tracing harness hooks does not exist" % (getattr(obj, "__name__", obj), n))

    class TraceFetcher(fetch.Fetcher):
        def __init__(self, *a, **k):
            tr.fetcher = None
            self._tracing_ready = False
            super().__init__(*a, **k)
            for n in ("scheduled", "imageinfo_todo", "revids_todo", "pages_todo", "imagedescription_todo", "redirects",
                      "api", "api_cache", "api_semaphore", "dispatch_event", "image_download_pool"):
                if not hasattr(self, n):
                    raise HarnessMismatch("Fetcher has no attribute %r the tracing harness projects" % n)
            pool_spawn = self.image_download_pool.spawn

            def spawn_download(fn, *fa, **fk):
                url = next((x for x in fa if isinstance(x, str)), "")
                title = next((t for t, img in sw.images.items() if sw.thumb_url(img) == url), url)
                tr.op("spawnget", title)
                return pool_spawn(fn, *fa, **fk)
            self.image_download_pool.spawn = spawn_download
            tr.fetcher = self
            tr.main_event("init")

        def _refcall_noinc(self, fun, *args, **kwargs):
            kind, arg = argrepr(fun, args, kwargs)
            iid = tr.new_item(kind, arg)
            tr.op("spawn", iid, kind, arg)

            def traced(*a, **k):
                tr.bind(gevent.getcurrent(), iid)
                tr.op("start")
                try:
                    return fun(*a, **k)
                except BaseException as e:                  # noqa: BLE001
                    tr.op("exc", type(e).__name__, str(e)[:200])
                    raise
            traced.__name__ = fun.__name__
            return super()._refcall_noinc(traced, *args, **kwargs)

        def dispatch(self):
            g = gevent.getcurrent()
            if g not in tr.bound:
                did = tr.new_item("dispatcher", [])
                tr.bind(g, did)
            tr.op("dispatch", list(self.imageinfo_todo), self.api.idle())
            tr.set_wait("event")
            return super().dispatch()

        def finish(self):
            tr.main_event("join")
            return super().finish()

    def traced_download(url, path, temp_path, *a, **k):
        title = None
        for t, img in sw.images.items():
            if sw.thumb_url(img) == url:
                title = t
        iid = tr.new_item("download", [title or url])
        tr.bind(gevent.getcurrent(), iid)
        tr.op("start")
        try:
            r = orig_download(url, path, temp_path, *a, **k)
            tr.op("stored", title or url)
            return r
        except BaseException as e:                          # noqa: BLE001
            tr.op("exc", type(e).__name__, str(e)[:200])
            raise

    class LogSem(Semaphore):
        """The API semaphores, with the blocking point made visible to the tracer."""
        def acquire(self, blocking=True, timeout=None):
            if self.counter <= 0:
                tr.op("block", getattr(self, "_label", "sem"))
                tr.set_wait(getattr(self, "_label", "sem"))
            r = super().acquire(blocking, timeout)
            tr.op("acq", getattr(self, "_label", "sem"))
            return r

        def release(self):
            tr.op("rel", getattr(self, "_label", "sem"))
            return super().release()

    saved = (sapi.MwApi, fetch.FsOutput, fetch.Fetcher, fetch._get_download_client, fetch.download_to_file,
             sapi.Semaphore, fetch.Semaphore, fetch.Fetcher.title_mapping, dict(fetch.Fetcher.titles_pending_contributor_lookup))
    orig_download = fetch.download_to_file
    orig_set_limit = sapi.MwApi.set_limit

    def set_limit(self, limit=None):
        orig_set_limit(self, limit)
        self.limit_fetch_semaphore._label = "sem:" + ("shared" if str(self.apiurl).startswith(SHARED_HOST) else "local")
    SynthApi.set_limit = set_limit

    class HtmlSem(LogSem):
        _label = "hsem"

    sapi.MwApi = SynthApi
    mn.mwapi.MwApi = SynthApi
    fetch.FsOutput = TraceFsOutput
    fetch.Fetcher = TraceFetcher
    fetch._get_download_client = lambda url: FakeClient()
    fetch.download_to_file = traced_download
    sapi.Semaphore = LogSem
    fetch.Semaphore = HtmlSem

    mb = metabook.Collection()
    for k, a in enumerate(book):
        if cfg.get("chapters") and k % 2 == 1:
            mb.items.append(metabook.Chapter(title="Chapter %d" % k, items=[]))
        mb.append_article(title=a["title"], revision=(a["rev"] or None))
    mb.wikis.append(metabook.WikiConf(baseurl=LOCAL_HOST + "/w/"))   # ident None -> single wiki
    wiki_options = {"script_extension": ".php", "noimages": not cfg["fetch_images"], "imagesize": 800}

    result = {"status": "done", "error": "", "hang": False}
    finished = [False]
    main = gevent.getcurrent()
    pump = gevent.spawn(net.pump, main, lambda: finished[0])
    stderr_path = outdir + ".stderr"
    old_stderr, old_stdout = sys.stderr, sys.stdout
    errf = open(stderr_path, "w")
    sys.stderr = sys.stdout = errf
    import logging
    logging.disable(logging.CRITICAL)
    tr.enabled = log_trace
    greenlet.settrace(tr.on_switch)
    try:
        try:
            mn.make_nuwiki(fsdir=outdir, metabook=mb, wiki_options=wiki_options, pod_client=None, status=None)
        except Hang as e:
            result.update(status="hang", error=str(e), hang=True)
        except BaseException as e:                           # noqa: BLE001
            result.update(status="failed", error="%s: %s" % (type(e).__name__, str(e)[:300]))
    finally:
        greenlet.settrace(None)
        tr.enabled = False
        finished[0] = True
        pump.kill(block=False)
        sys.stderr, sys.stdout = old_stderr, old_stdout
        errf.close()
        (sapi.MwApi, fetch.FsOutput, fetch.Fetcher, fetch._get_download_client, fetch.download_to_file,
         sapi.Semaphore, fetch.Semaphore) = saved[:7]
        mn.mwapi.MwApi = saved[0]
    with open(stderr_path) as f:
        result["stderr"] = f.read()[-4000:]
    os.unlink(stderr_path)
    result["events"] = tr.events
    result["harness_errors"] = tr.harness_errors
    result["reached_init"] = any(e["op"] == "init" for e in tr.events)
    result["requests"] = sw.requests
    result["released"] = net.released
    result["leaked_title_mapping"] = dict(fetch.Fetcher.title_mapping)
    if result["status"] == "done":
        try:
            result["final"] = read_back(case, outdir, sw)
        except Exception as e:                               # noqa: BLE001
            import traceback
            result["status"] = "readfail"
            result["error"] = "reading the archive back failed: %s\n%s" % (e, traceback.format_exc()[-1500:])
    return result


def read_back(case, outdir, sw=None):
    """The archive as the renderer reads it (nuwiki.Adapt), projected to the spec's atoms."""
    from mwlib.core import nuwiki
    sw = sw or SynthWiki(case["wiki"])
    atoms = text_atoms(sw)
    w = nuwiki.Adapt(outdir)

    def authors_of(title, rev=None):
        a = w.get_authors(title, revision=rev)
        if a is None:
            return {"present": False, "names": [], "anon": 0}
        names, anon = [], 0
        for n in a:
            if n.startswith("ANONIPEDITS:"):
                anon = int(n.split(":", 1)[1])
            else:
                names.append(n)
        return {"present": True, "names": sorted(names), "anon": anon}

    arts = []
    for a in case["book"]:
        if a["rev"]:
            page = w.nuwiki.get_page(None, a["rev"])
        else:
            page = w.normalize_and_get_page(a["title"], 0)
        text = 0
        if page is not None and page.rawtext is not None:
            text = atoms.get(page.rawtext, UNKNOWN)
        arts.append({"text": text, "authors": authors_of(a["title"], a["rev"] or None)})
    imgs = []
    for k, img in enumerate(case["wiki"]["images"]):
        t = img["title"]
        path = w.get_disk_path(t)
        fatom = 0
        if path is not None:
            with open(path, "rb") as f:
                data = f.read()
            fatom = (k + 1) if data == sw.image_bytes(t) and data else UNKNOWN
        dp = w.get_image_description_page(t)
        datom = 0
        if dp is not None:
            datom = (k + 1) if dp.rawtext == sw.desc_text(t) else UNKNOWN
        info = w.nuwiki.imageinfo.get(t)
        iatom = 0
        if info:
            iatom = (k + 1) if info.get("thumburl") == sw.thumb_url(img) and info.get("descriptionurl") == sw.desc_url(img) else UNKNOWN
        imgs.append({"file": fatom, "desc": datom, "info": iatom, "authors": authors_of(t)})
    return {"arts": arts, "imgs": imgs}


# ----------------------------------------------------------------------------------- trace for TLC
# method names of today's code, used ONLY to cross-check the behavioural inference below
KIND = {"fetch_html": "FH", "fetch": "H1", "fetch_used": "FU", "fetch_used_block": "UB",
        "expand_templates_from_title": "ET", "expand_templates_from_revid": "ER",
        "fetch_imageinfo": "II", "_download_image": "DL", "download": "GET",
        "handle_new_basepath": "NB", "fetch_image_page": "IP", "get_image_edits": "IE"}
FIRST_REQUEST = {"parse": "H1", "used": "UB", "expand": "ET", "revcontent": "ER", "imageinfo": "II",
                 "descrev": "IP", "siteinfo": "NB"}


def infer_kinds(result):
    """item id -> kind of work item in Fetcher.tla's vocabulary, from what the item DID: the first
    request it issued; for items that issue none, what they spawned; for items that did nothing
    at all, the shape of their arguments.  An item that fits no kind keeps its method name as kind:
    the trace spec has no such item and TLC rejects the run (a verdict about the code, never a
    harness mismatch -- that is reserved for seams the harness hooks and cannot find)."""
    ops, meta = {}, {}
    for e in result["events"]:
        ops.setdefault(e["id"], []).extend(e["ops"])
        for o in e["ops"]:
            if o[0] == "spawn":
                meta[o[1]] = (o[2], o[3], e["id"])
    children = {}
    for iid, (_n, _g, parent) in meta.items():
        children.setdefault(parent, []).append(iid)
    kinds = {}

    def kind(iid):
        if iid in kinds:
            return kinds[iid]
        name, gen, _parent = meta[iid]
        my = ops.get(iid, [])
        strs = [g[1] for g in gen if g[0] == "s"]
        apis = [g[1] for g in gen if g[0] == "api"]
        req = next((o for o in my if o[0] == "req"), None)
        k = None
        if req is not None:
            what = req[2][0]
            if what == "contributors":
                k = "IE" if apis else None        # ET / ER end with contributors, only IE starts with it
            else:
                k = FIRST_REQUEST.get(what)
        elif any(o[0] == "spawnget" for o in my):
            k = "DL"
        else:
            kid = {kind(c) for c in children.get(iid, [])}
            if kid == {"H1"}:
                k = "FH"
            elif kid == {"UB"}:
                k = "FU"
            elif not kid and strs and strs[0] in ("page", "oldid"):
                k = "FH"                            # fetch_html of an empty list
            elif not kid and strs and strs[0] in ("titles", "revids"):
                k = "FU"                            # fetch_used of an empty list
            elif not kid and len(gen) == 1 and strs and strs[0].startswith("http"):
                k = "NB"                            # nothing new under that base path
        if k is None:
            # the item did nothing the model knows for any kind: that is behaviour of the code under
            # test, not a misfit of the harness -- keep today's kind for a known method name, else the
            # bare name, and let TLC refuse the event
            k = KIND.get(name, name)
        kinds[iid] = k
        return k
    for iid in sorted(meta):
        kind(iid)
    return kinds, ops


def wiki_for_tla(wiki):
    return {"filens": wiki["filens"],
            "pages": [{"title": p["title"], "ns": p["ns"], "revs": [str(r) for r in p["revs"]],
                       "redirect": p["redirect"], "uses": p["uses"], "images": p["images"],
                       "users": p["users"], "bots": p["bots"], "anon": p["anon"]} for p in wiki["pages"]],
            "images": [{"title": i["title"], "shared": i["shared"], "cats": i["cats"], "users": i["users"],
                        "bots": i["bots"], "anon": i["anon"]} for i in wiki["images"]],
            "imgorder": image_order(wiki)}


def cfg_for_tla(case):
    return {"wiki": wiki_for_tla(case["wiki"]),
            "book": [{"title": a["title"], "rev": str(a["rev"]) if a["rev"] else ""} for a in case["book"]],
            "reqlimit": case["cfg"]["reqlimit"], "reslimit": case["cfg"]["reslimit"],
            "fetchimages": bool(case["cfg"]["fetch_images"]), "html": True}


def to_trace(case, result):
    """Project the recorded events onto the vocabulary of FetcherTrace.tla (dumb renaming only)."""
    wiki = case["wiki"]
    local_fns, shared_fns = nsname(wiki["local"], 6), nsname(wiki["shared"], 6)

    def local_title(repo_title, host):
        ns, _, name = repo_title.partition(":")
        want = shared_fns if host == "shared" else local_fns
        if ns == want:
            for i in wiki["images"]:
                if i["name"] == name and i["shared"] == (host == "shared"):
                    return i["title"]
        return "?" + repo_title

    names = {}                 # item id -> (k, a, h)
    kinds, allops = infer_kinds(result)

    def item(iid, name, gen, parent=None):
        k = kinds[iid]
        strs = [g[1] for g in gen if g[0] == "s"]
        lists = [g[1] for g in gen if g[0] == "l"]
        apis = [g[1] for g in gen if g[0] == "api"]

        # Arguments are recorded as the code uses them.  Where the code iterates an argument
        # (titles / revids / blocks), whatever iterable was passed is iterated the same way: a bare
        # string yields its characters.  A shape no kind of the model has is still recorded (host
        # "?", the strings as they are) so that TLC, not the harness, refuses the event.
        def iterated():
            if lists:
                return list(lists[0])
            return list(strs[1]) if len(strs) > 1 else []
        if k in ("FH", "FU", "UB"):
            a, h = strs[:1] + iterated(), "local"
        elif k == "H1":
            req = next((o for o in allops.get(iid, []) if o[0] == "req"), None)
            a, h = ([req[2][1], str(req[2][2])] if req else strs), "local"
        elif k in ("ET", "ER"):
            a, h = strs[:1], "local"
        elif k == "II":
            a, h = (list(lists[0]) if lists else list(strs[0]) if strs else []), "local"
        elif k == "DL":
            got = [o[1] for o in allops.get(iid, []) if o[0] == "spawnget"]
            a, h = [got[0] if got else (strs[-1] if strs else "")], ""
        elif k == "NB":
            a, h = [], ("shared" if strs and strs[0].startswith(SHARED_HOST) else "local" if strs else "?")
        elif k == "IP":
            h = apis[0] if apis else "?"
            a = [local_title(t, h) for t in (lists[0] if lists else list(strs[0]) if strs else [])]
        elif k == "IE":
            h = apis[0] if apis else "?"
            a = [local_title(strs[0], h)] if strs else []
        else:
            a, h = strs + [x for l_ in lists for x in l_], "?"
        names[iid] = (k, a, h)
        return [k, a, h]

    out = []
    init = {"ts": [], "rs": []}
    prev_todo = []
    for e in result["events"]:
        sp, w, bl = [], [], []
        for o in e["ops"]:
            if o[0] == "spawn":
                sp.append(item(o[1], o[2], o[3], parent=e["id"]))
                if sp[-1][0] == "IP":
                    bl.append(sp[-1][1])
            elif o[0] == "spawnget":
                sp.append(["GET", [o[1]], ""])
            elif o[0] == "wexp":
                w.append("p:%s@%s" % (o[1], o[2]) if o[2] else "p:%s" % o[1])
            elif o[0] == "wpages":
                w.extend("dp:" + t for t in o[1])
            elif o[0] == "db" and o[1] == "html":
                w.append("h:" + o[2])
            elif o[0] == "db" and o[1] == "imageinfo":
                w.append("ii:" + o[2])
            elif o[0] == "stored":
                w.append("f:" + o[1])
        st = e["st"]
        if e["op"] == "init":
            for s_ in sp:
                if s_[0] == "FH" and s_[1][0] == "page":
                    init["ts"] = s_[1][1:]
                if s_[0] == "FH" and s_[1][0] == "oldid":
                    init["rs"] = s_[1][1:]
            prev_todo = list(st.get("todoImg", []))
            continue
        if e["op"] == "join":
            out.append({"t": "join", "k": "J", "a": [], "h": "", "to": "", "w": [], "sp": [], "ord": [], "bl": [], "st": st})
            continue
        if e["id"] in names:
            k, a, h = names[e["id"]]
        elif e["kind"] == "download":
            k, a, h = "GET", [e["arg"][0]], ""
        elif e["kind"] == "dispatcher":
            k, a, h = "D", [], ""
        else:
            raise HarnessMismatch("event of an unknown greenlet: %r" % (e,))
        if k == "D":
            if e["wait"] == "done" and not e["ops"]:
                continue                       # the dispatcher greenlet being killed by run()
            t, to = "dispatch", "event"
        else:
            t = "step"
            to = {"net": "r", "hsem": "whsem", "done": "done", "other": "join"}.get(e["wait"], e["wait"])
            if to.startswith("sem:"):
                to = "wsem"
        todo = list(st.get("todoImg", []))
        ord_ = todo[len(prev_todo):] if len(todo) >= len(prev_todo) and todo[:len(prev_todo)] == prev_todo else []
        prev_todo = todo
        out.append({"t": t, "k": k, "a": a, "h": h, "to": to, "w": sorted(w), "sp": sp, "ord": ord_, "bl": bl,
                    "st": {x: st[x] for x in ("sched", "todoImg", "todoRev", "todoPg", "hasL", "descL", "hasS", "descS", "redir", "seml", "sems", "hsem", "dp")}})
    view = None
    if result.get("final"):
        f = result["final"]
        titles = [i["title"] for i in wiki["images"]]

        def ta(x):
            return "" if x == 0 else ("?" if x == UNKNOWN else str(x))

        def ia(x, pre=""):
            return "" if x == 0 else ("?" if x == UNKNOWN else pre + titles[x - 1])
        view = {"arts": [{"text": ta(a["text"]), "authors": a["authors"]} for a in f["arts"]],
                "imgs": [{"file": ia(i["file"]), "desc": ia(i["desc"], "d:"), "info": ia(i["info"]), "authors": i["authors"]}
                         for i in f["imgs"]]}
    else:
        nobody = {"present": False, "names": [], "anon": 0}
        view = {"arts": [{"text": "", "authors": nobody} for _ in case["book"]],
                "imgs": [{"file": "", "desc": "", "info": "", "authors": nobody} for _ in wiki["images"]]}
    status = "done" if result["status"] in ("done", "readfail") else "failed"
    return {"id": case["id"], "cfg": cfg_for_tla(case), "init": init, "ev": out,
            "final": {"status": status, "view": view}}
