"""Beyond the listed properties: spec/RenderFlow.tla (the render request end to end) and its
binding to nserve.do_render + qs.slave.Worker + nslave.Commands.

record_scenarios() runs the REAL code against a recording queue proxy (the mw-zip / mw-render
subprocess is stubbed at nslave.system) and turns the observed calls into events of
RenderFlowTrace.tla; model_check() runs the design-level checks (safety, liveness with and
without timeouts, the starvation hazard as a non-vacuity run)."""
import json
import os

from . import tlc

CID = "0123456789abcdef"


def _cfg(spec, kill, die, props=True, colls='{"c1", "c2"}', workers='{"w1", "w2"}', bound=False, post=False, orphan=False):
    B = lambda b: "TRUE" if b else "FALSE"
    return ("SPECIFICATION %s\nCONSTANTS\n  Colls = %s\n  Workers = %s\n  WithKill = %s\n  WithDie = %s\n  WithPost = %s\n"
            "INVARIANTS TypeOK RenderOkOnlyAfterZipOk ZipOkIsTrue OneRunner NoStarvationWithoutFaults PostOnlyTimesOut%s\n%s"
            "%sCHECK_DEADLOCK FALSE\n" % (spec, colls, workers, B(kill), B(die), B(post), " NoOrphanChannel" if orphan else "",
                                          "PROPERTY EventuallyDecided\n" if props else "",
                                          "CONSTRAINT SerialBound\n" if bound else ""))


def model_check(ctx, quick):
    out = {}
    # no faults: every request is decided without relying on any timeout
    r = tlc.run(ctx, "RenderFlow", _cfg("SpecNoTimeouts", False, False), name="rf_nofault", timeout=900, coverage=False)
    if not r.ok:
        ctx.machinery("RenderFlow.tla (no faults) violates %s %s\n%s" % (r.kind, r.name, r.out[-1500:]))
    out["no_faults_no_timeouts"] = r.summary()
    states, trans = r.distinct, r.generated
    # worker deaths, timeouts fire eventually
    r = tlc.run(ctx, "RenderFlow", _cfg("Spec", False, True), name="rf_die", timeout=1800)
    if not r.ok:
        ctx.machinery("RenderFlow.tla (worker deaths) violates %s %s\n%s" % (r.kind, r.name, r.out[-1500:]))
    out["worker_deaths_with_timeouts"] = r.summary()
    states += r.distinct
    trans += r.generated
    # kills: safety only in quick (liveness graph is large), with liveness on one collection
    r = tlc.run(ctx, "RenderFlow", _cfg("Spec", True, True, props=False, bound=True), name="rf_kill", timeout=1800)
    if not r.ok:
        ctx.machinery("RenderFlow.tla (kills) violates %s %s\n%s" % (r.kind, r.name, r.out[-1500:]))
    out["kills_and_deaths_safety"] = r.summary()
    states += r.distinct
    trans += r.generated
    # the hazard (non-vacuity of the liveness property): with kills and no timeout the workers starve
    r = tlc.run(ctx, "RenderFlow", _cfg("SpecNoTimeouts", True, False, colls='{"c1"}', workers='{"w1"}'),
                name="rf_starve", timeout=900)
    if not (r.kind == "property"):
        ctx.machinery("RenderFlow.tla: the starvation hazard (kill, no timeouts) should violate EventuallyDecided, got %s %s"
                      % (r.kind, r.name))
    out["starvation_hazard_found"] = [r.kind, r.name]
    # do_zip_post: its job goes to a channel no worker serves - safety with the post requests in,
    # and the hazard run that must find the orphan
    r = tlc.run(ctx, "RenderFlow", _cfg("Spec", False, False, props=False, colls='{"c1"}', post=True), name="rf_post", timeout=900)
    if not r.ok:
        ctx.machinery("RenderFlow.tla (post requests) violates %s %s\n%s" % (r.kind, r.name, r.out[-1500:]))
    out["with_post_requests"] = r.summary()
    states += r.distinct
    trans += r.generated
    r = tlc.run(ctx, "RenderFlow", _cfg("Spec", False, False, props=False, colls='{"c1"}', post=True, orphan=True), name="rf_orphan", timeout=900)
    if not (r.kind == "invariant" and r.name == "NoOrphanChannel"):
        ctx.machinery("RenderFlow.tla: the orphan-channel hazard (post) should violate NoOrphanChannel, got %s %s" % (r.kind, r.name))
    out["orphan_channel_hazard_found"] = [r.kind, r.name]
    return out, states, trans


# ----------------------------------------------------------------------------- recording the real code
class Rec:
    def __init__(self):
        self.calls = []


def _worker_run(scratch, kind, mk_outcome, system_ok, zip_exists=False):
    """Run the real Worker.dispatch for one job; returns the list of observed calls."""
    import logging
    import mwlib.core.nslave as nslave
    from qs import slave
    nslave.logger.setLevel(logging.CRITICAL)
    calls = []

    class Client:
        host, port = "h", 1

    class Proxy:
        def get_client(self):
            return Client()

        def qadd(self, **kw):
            calls.append(["qadd", kw.get("channel"), kw.get("jobid"), bool(kw.get("wait"))])
            if mk_outcome == "ok":
                return {"error": None, "result": None, "done": True}
            return {"error": mk_outcome, "result": None, "done": True}

    def system(args, timeout=None):
        calls.append(["system", args[0]])
        if not system_ok:
            raise RuntimeError("command failed with returncode 1")
        if args[0] == "mw-render":
            with open(args[args.index("-o") + 1], "wb") as f:
                f.write(b"%PDF-1.4 x")

    nslave.system = system
    nslave.CACHE_DIR = scratch
    nslave.CACHE_URL = "http://cache"
    d = nslave.get_collection_dir(CID)
    os.makedirs(os.path.dirname(d), exist_ok=True)
    if zip_exists or kind == "rd":         # a render worker finds the directory makezip created
        os.makedirs(d, exist_ok=True)
        open(os.path.join(d, "collection.zip"), "wb").close()

    class WH(slave.Worker, nslave.Commands):
        pass

    params = {"metabook_data": json.dumps({"type": "collection", "title": "T", "items": []}), "collection_id": CID,
              "base_url": "http://wiki/w/", "writer": "rl"}
    job = {"jobid": CID + (":makezip" if kind == "mk" else ":render-rl"), "priority": 0,
           "channel": "makezip" if kind == "mk" else "render", "payload": {"params": params}}
    try:
        res = WH(Proxy()).dispatch(job)
        calls.append(["return", sorted(res.keys()) if isinstance(res, dict) else res])
    except Exception as e:                  # noqa: BLE001  what qs.slave reports as error
        calls.append(["raise", type(e).__name__])
    if os.path.isdir(d):
        import shutil
        shutil.rmtree(d)
    return calls


def _render_events(calls, w, c):
    """Observed calls of a render worker -> events of RenderFlowTrace (in the order observed)."""
    ev = []
    i = 0
    if i < len(calls) and calls[i][0] == "qadd":
        ok = calls[i][1] == "makezip" and calls[i][2] == CID + ":makezip" and calls[i][3] is True
        ev.append({"op": "pull" if ok else "bad-first-call:%r" % (calls[i],), "w": w, "c": c, "k": "rd"})
        i += 1
    else:
        ev.append({"op": "no-makezip-wait-before:%r" % (calls[i] if i < len(calls) else None,), "w": w, "c": c, "k": "rd"})
    if i < len(calls) and calls[i][0] == "raise":
        ev.append({"op": "rdproceed", "w": w, "raised": True})
        ev.append({"op": "report", "c": c, "error": True, "hasresult": False})
        return ev
    if i < len(calls) and calls[i] == ["system", "mw-render"]:
        ev.append({"op": "rdproceed", "w": w, "raised": False})
        i += 1
    if i < len(calls) and calls[i][0] == "return":
        has = calls[i][1] == ["size", "suggested_filename", "url"]
        ev.append({"op": "rddone", "w": w, "ok": True})
        ev.append({"op": "report", "c": c, "error": False, "hasresult": has})
    elif i < len(calls) and calls[i][0] == "raise":
        ev.append({"op": "rddone", "w": w, "ok": False})
        ev.append({"op": "report", "c": c, "error": True, "hasresult": False})
    else:
        ev.append({"op": "unexpected:%r" % (calls[i:],), "w": w})
    return ev


def nslave_commands():
    import mwlib.core.nslave as nslave
    return nslave.Commands


def record_scenarios(ctx):
    """Returns (traces, raw) - one trace per scenario of the real nserve / slave / nslave code."""
    from mwlib.core import nserve
    traces, raw = [], []
    # nserve.do_render: which jobs, in which order
    q = []

    class QProxy:
        def qadd(self, **kw):
            q.append([kw.get("channel"), kw.get("jobid")])

    app = nserve.Application()
    app.qserve = QProxy()
    resp = app.do_render(CID, {"metabook": json.dumps({"type": "collection", "title": "T", "items": []}),
                               "base_url": "http://wiki.example.org/w/", "writer": "rl"}, is_new=True)
    req = []
    for ch, jid in q:
        if [ch, jid] == ["makezip", CID + ":makezip"]:
            req.append({"op": "reqmk", "c": "c1"})
        elif [ch, jid] == ["render", CID + ":render-rl"]:
            req.append({"op": "reqrd", "c": "c1"})
        else:
            req.append({"op": "unexpected-request:%s:%s" % (ch, jid), "c": "c1"})
    raw.append({"do_render": q, "response": resp})
    scratch = os.path.join(ctx.scratch, "rf-cache")
    for mk_outcome in ("ok", "boom", "timeout", "killed"):
        for system_ok in (True, False):
            mk_calls = _worker_run(scratch, "mk", "ok", mk_outcome == "ok")
            rd_calls = _worker_run(scratch, "rd", mk_outcome, system_ok)
            raw.append({"mk_outcome": mk_outcome, "mw_render_ok": system_ok, "makezip_worker": mk_calls, "render_worker": rd_calls})
            tr = list(req)
            tr.append({"op": "pull", "w": "w1", "c": "c1", "k": "mk"})
            # the makezip worker: runs mw-zip and returns / raises
            if mk_calls[:1] != [["system", "mw-zip"]]:
                tr.append({"op": "unexpected-makezip-worker:%r" % (mk_calls,), "w": "w1"})
            if mk_outcome in ("ok", "boom"):
                tr.append({"op": "mkdone", "w": "w1", "ok": mk_outcome == "ok" and mk_calls[-1][0] == "return"})
            elif mk_outcome == "timeout":
                tr.append({"op": "expire", "c": "c1", "k": "mk"})
            else:
                tr.append({"op": "kill", "c": "c1", "k": "mk"})
            if mk_outcome == "killed":
                # the re-add creates a new makezip job: finish that one with an error too (the proxy said so)
                tr += _render_events(rd_calls, "w2", "c1")[:1]
                tr.append({"op": "expire", "c": "c1", "k": "mk"})
                tr += _render_events(rd_calls, "w2", "c1")[1:]
            else:
                tr += _render_events(rd_calls, "w2", "c1")
            traces.append(tr)
    # do_zip_post: what it adds, and which channels the real worker class would pull from
    q.clear()
    resp2 = app.do_zip_post(CID, {"metabook": json.dumps({"type": "collection", "title": "T", "items": []}),
                                  "base_url": "http://wiki.example.org/w/", "post_url": "http://pod.example.org/upload"}, False)
    from qs import slave

    class WH2(slave.Worker, nslave_commands()):
        pass

    served = sorted(x[len("rpc_"):] for x in dir(WH2) if x.startswith("rpc_"))
    po = []
    for ch, jid in q:
        po.append({"op": "reqpo", "c": "c1"} if (ch == "post" and jid is None) else {"op": "unexpected-post-request:%s:%s" % (ch, jid), "c": "c1"})
    raw.append({"do_zip_post": list(q), "response": resp2, "served_channels": served})
    traces.append(po + [{"op": "channels", "served": served}, {"op": "expire", "c": "c1", "k": "po"}])
    # makezip worker when the zip is already there: no mw-zip run, still a success
    z = _worker_run(scratch, "mk", "ok", True, zip_exists=True)
    raw.append({"zip_exists": True, "makezip_worker": z})
    traces.append(list(req) + [{"op": "pull", "w": "w1", "c": "c1", "k": "mk"},
                               {"op": "mkdone", "w": "w1", "ok": z == [["return", None]]}])
    return traces, raw


def validate(ctx, traces):
    path = os.path.join(ctx.scratch, "rf-traces.json")
    with open(path, "w") as f:
        json.dump(traces, f)
    cfg = ("SPECIFICATION TraceSpec\nCONSTANTS\n  Colls = {\"c1\"}\n  Workers = {\"w1\", \"w2\"}\n  WithKill = TRUE\n  WithDie = TRUE\n  WithPost = TRUE\n"
           "INVARIANTS TypeOK RenderOkOnlyAfterZipOk ZipOkIsTrue PostOnlyTimesOut\nCHECK_DEADLOCK TRUE\n")
    res = tlc.run(ctx, "RenderFlowTrace", cfg, name="rf_trace", env={"TRACE_FILE": path}, timeout=600)
    rejected = None
    if not res.ok:
        st = res.trace[-1][1] if res.trace else {}
        rejected = {"kind": res.kind, "name": res.name, "tid": st.get("tid"), "l": st.get("l")}
    return res, rejected
