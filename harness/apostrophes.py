"""Beyond the listed properties: spec/Apostrophes.tla bound to mwlib.parser.styleanalyzer.compute_path."""
from . import tlc


def cfg(maxlen, counts="{2, 3, 4, 5, 6}", emit=True):
    return ("SPECIFICATION Spec\nCONSTANTS\n  Counts = %s\n  MaxLen = %d\n  Beam = 32\n  EmitCases = %s\n"
            "INVARIANTS PruningIsSafe CandidatesAreReadings Emit\nCHECK_DEADLOCK FALSE\n" % (counts, maxlen, "TRUE" if emit else "FALSE"))


def check(ctx, quick):
    from mwlib.parser import styleanalyzer
    res = tlc.run(ctx, "Apostrophes", cfg(5 if quick else 6), name="apostrophes", timeout=1800, heap="8g", coverage=False)
    if not res.ok:
        ctx.machinery("Apostrophes.tla violates %s %s\n%s" % (res.kind, res.name, res.out[-1200:]))
    reach = {}
    for c in res.emitted:
        reach[tuple(c["counts"])] = set((a, bool(b), bool(i)) for a, b, i in c["reach"])
    bad = cuts = 0
    for c in res.emitted:
        seq = list(c["counts"])
        try:
            path = styleanalyzer.compute_path(list(seq))
            d = None
            if len(path) != len(seq):
                d = "path of length %d for %d runs" % (len(path), len(seq))
            else:
                for k, s in enumerate(path):
                    if (s.apocount, bool(s.is_bold), bool(s.is_italic)) not in reach[tuple(seq[:k + 1])]:
                        d = "state %r after run %d is not a reading of %r" % (s, k + 1, seq[:k + 1])
                        break
                if d is None:
                    f = path[-1]
                    cost = f.apocount + bool(f.is_bold) + bool(f.is_italic)
                    if cost < c["opt"]:
                        d = "final cost %d below the optimum %d (the reference is wrong?)" % (cost, c["opt"])
                    elif not c["cut"] and cost != c["opt"]:
                        d = "final cost %d, the cheapest reading costs %d (no beam cut on the way)" % (cost, c["opt"])
        except Exception as e:                                   # noqa: BLE001
            d = "raised %r" % (e,)
        cuts += 1 if c["cut"] else 0
        if d:
            bad += 1
            if bad <= 3:
                ctx.drift("Apostrophes", "styleanalyzer.compute_path(%r) does not follow Apostrophes.tla: %s" % (seq, d), {"counts": seq, "difference": d})
    ctx.cover(states=res.distinct, transitions=res.generated, traces_validated_against_impl=len(res.emitted) - bad)
    ctx.set_cover(apostrophe_sequences_replayed=len(res.emitted), apostrophe_sequences_with_beam_cut=cuts,
                  apostrophe_sequences_differing=bad)
