"""A wiki database with the production interface for template-expansion checks (C03, C04).

The archive directory is written with the code the fetcher uses (mwlib.network.fetch.FsOutput:
revisions-1.txt, siteinfo.json, nfo.json, the sqlite side tables) and opened with
mwlib.core.nuwiki.Adapt, exactly as a render job opens a fetched collection.  The test doubles in
the repository (DictDB, DummyDB) lack get_url / nshandler / normalize_and_get_page; crashes on
them would be artefacts.
"""
import os
import sys
import threading


def make_wikidb(path, templates, lang="en", articles=None):
    """templates / articles: {title without namespace: wikitext}.  Returns nuwiki.Adapt."""
    from mwlib.core import nuwiki
    from mwlib.network import siteinfo
    from mwlib.network.fetch import FsOutput

    fs = FsOutput(path)
    si = siteinfo.get_siteinfo(lang)
    if si is None:
        raise ValueError("no bundled siteinfo for %r" % lang)
    fs.write_siteinfo(si)
    fs.nfo = {"base_url": "http://%s.example.org/w/" % lang, "script_extension": ".php", "format": "nuwiki"}
    tns = si["namespaces"]["10"]["*"]
    pages = {}
    revid = 1000
    for ns, prefix, d in ((10, tns + ":", templates or {}), (0, "", articles or {})):
        for name in sorted(d):
            revid += 1
            pages[str(revid)] = {"title": prefix + name, "ns": ns, "revisions": [{"revid": revid, "*": d[name]}]}
    fs.write_pages({"pages": pages})
    fs.close()
    for storage in ("authors", "html", "imageinfo"):
        db = getattr(fs, storage, None)
        if db is not None:
            db.close()
    return nuwiki.Adapt(path)


def expand(db, text, pagename="Main", **kw):
    """One real expansion.  Returns (result, expander)."""
    from mwlib.parser.templ.evaluate import Expander
    e = Expander(text, pagename=pagename, wikidb=db, **kw)
    return e.expandTemplates(), e


class StepCounter:
    """Deterministic work measure: number of Python-level and C-level call events."""

    def __init__(self):
        self.n = 0

    def _prof(self, frame, event, arg):
        if event == "call" or event == "c_call":
            self.n += 1

    def __enter__(self):
        self.n = 0
        sys.setprofile(self._prof)
        return self

    def __exit__(self, *a):
        sys.setprofile(None)
        return False


def seam(modname, attr=None):
    """A private name of the code under test that a check has to read.  A renamed / removed seam is a
    failure of the machinery (exit 2) that names the seam — never an anonymous crash, never a violation."""
    import importlib

    from .common import MachineryError
    preload()
    try:
        cur = importlib.import_module(modname)
    except ImportError as err:
        raise MachineryError("seam %s does not exist: %s" % (modname, err))
    for part in (attr.split(".") if attr else []):
        if not hasattr(cur, part):
            raise MachineryError("seam %s.%s does not exist: the check reads this private name of mwlib; it was renamed or removed "
                                 "(adapt the check)" % (modname, attr))
        cur = getattr(cur, part)
    return cur


def harness_error(err):
    """Was the exception raised by code under /verif (innermost traceback frame)?  Then it is a defect of the
    machinery, never a violation of the property."""
    import traceback

    from .common import VERIF
    tb = traceback.extract_tb(err.__traceback__)
    return bool(tb) and os.path.abspath(tb[-1].filename).startswith(VERIF + os.sep)


def preload():
    """Import mwlib in an order that works: importing mwlib.parser.templ.* first runs into the
    circular import evaluate -> metabook -> expander -> evaluate."""
    import mwlib.network.fetch  # noqa: F401


def quiet_logging():
    import logging
    logging.disable(logging.CRITICAL)
    preload()
