"""Beyond the listed properties: the client/worker side of the queue protocol.

  spec/Slave.tla      qs.slave.main (handle_one_job / start_worker): pull with back-off, dispatch,
                      exactly one qfinish (error iff the handler failed)
  spec/RpcClient.tla  qs.rpcclient.RpcClient.send: connect on demand, one retry after a failed
                      attempt, error replies raise and are not retried

Both are P-REPLAY: TLC enumerates every behaviour of the bounded model (the environment's choices
and the calls the code is predicted to make), each is fed to the REAL code through scripted fakes
of the layer below (ServerProxy + time.sleep; socket.create_connection), and the calls observed
are compared with the prediction.  Mismatches are reported as SPEC-DRIFT (the listed properties
do not speak about the client side)."""
import json
import logging

from . import tlc

WORK_CHANNELS = ["work"]


# ----------------------------------------------------------------------------- Slave
def slave_cfg(maxjobs, maxfails, emit=True, props=True):
    return ("SPECIFICATION Spec\nCONSTANTS\n  MaxJobs = %d\n  MaxFails = %d\n  EmitCases = %s\n"
            "INVARIANTS TypeOK ReportedOnce FinishCountMatches BackoffMonotone NeverBusyLoops HandlerOncePerJob EmitTerminal\n"
            "%sCHECK_DEADLOCK FALSE\n" % (maxjobs, maxfails, "TRUE" if emit else "FALSE",
                                          "PROPERTY JobReported\n" if props else ""))


JOBS = {
    "ok": {"channel": "work", "payload": {"x": "v"}},
    "raises": {"channel": "work", "payload": {"x": "boom"}},
    "nochannel": {"channel": "nosuch", "payload": {"x": "v"}},
    "badargs": {"channel": "work", "payload": {"y": 1}},
    "nopayload": {"channel": "work", "payload": None},
}


def run_slave(env):
    """Drive the real qs.slave.main with the environment choices `env`; returns the observed calls
    in the vocabulary of Slave.tla."""
    import gevent
    from qs import slave
    logging.getLogger("qs").setLevel(logging.CRITICAL)
    slave.logger.setLevel(logging.CRITICAL)
    calls = []
    pulls = [x["pull"] for x in env if "pull" in x]
    fins = [x["finish"] for x in env if "finish" in x]
    state = {"p": 0, "f": 0, "n": 0}

    class Proxy:
        def __init__(self, host=None, port=None, rpc_client=None):
            self.host, self.port = host, port

        def __str__(self):
            return "Proxy"

        def qpull(self, channels=None):
            calls.append({"c": "qpull"} if list(channels) == WORK_CHANNELS else {"c": "qpull", "channels": list(channels)})
            if state["p"] >= len(pulls):
                raise gevent.GreenletExit()          # script exhausted (a divergence shows in the comparison)
            k = pulls[state["p"]]
            state["p"] += 1
            if k == "fail":
                raise ConnectionError("queue server unreachable")
            if k == "stop":
                raise gevent.GreenletExit()
            state["n"] += 1
            return dict(JOBS[k], jobid="j%d" % state["n"], priority=0)

        def qfinish(self, jobid=None, result=None, error=None, **kw):
            ok = jobid == "j%d" % state["n"] and not kw
            kind = "error" if error is not None else "result"
            err = "none" if error is None else str(error).split(":")[0]
            calls.append({"c": "qfinish", "kind": kind, "err": err} if ok else
                         {"c": "qfinish", "kind": kind, "err": err, "unexpected": [jobid, sorted(kw)]})
            if kind == "result" and result not in ({"v": "v"}, {"v": None}):
                calls[-1]["result"] = repr(result)
            through = fins[state["f"]] if state["f"] < len(fins) else "ok"
            state["f"] += 1
            if through != "ok":
                raise ConnectionError("connection lost")

    class Time:
        @staticmethod
        def sleep(t):
            e = {0.5 * 2 ** i: i for i in range(12)}.get(t, -1)
            calls.append({"c": "sleep", "e": e} if e >= 0 else {"c": "sleep", "t": t})

        time = staticmethod(__import__("time").time)

    class Commands:
        def rpc_work(self, x=None):
            calls.append({"c": "rpc", "k": {"v": "ok", "boom": "raises", None: "nopayload"}.get(x, repr(x))})
            if x == "boom":
                return 1 // 0
            return {"v": x}

    saved = slave.ServerProxy, slave.time
    slave.ServerProxy, slave.time = Proxy, Time
    try:
        with gevent.Timeout(20):
            slave.main(Commands, numgreenlets=1)
    finally:
        slave.ServerProxy, slave.time = saved
    return calls


def check_slave(ctx, quick):
    # (jobs, failed pulls): 9 failures reach the back-off cap (0.5 s ... 64 s, 64 s); the number of
    # behaviours grows like C(fails + jobs + 1, jobs + 1) * 10^jobs, so the 3-job plan has fewer failures
    plans = [(2, 9)] if quick else [(2, 9), (3, 4)]
    cases = []
    nstates = ntrans = 0
    for mj, mf in plans:
        res = tlc.run(ctx, "Slave", slave_cfg(mj, mf), name="slave_%d_%d" % (mj, mf), timeout=1800, coverage=True, heap="8g")
        if not res.ok:
            ctx.machinery("Slave.tla violates %s %s\n%s" % (res.kind, res.name, res.out[-1200:]))
        missing = tlc.uncovered_actions(res, ["PullJob", "PullFails", "Stop", "Sleep", "Dispatch", "Finish"])
        if missing:
            ctx.machinery("actions never taken in Slave.tla: %s" % missing)
        cases += res.emitted
        nstates += res.distinct
        ntrans += res.generated
    bad = 0
    for c in cases:
        try:
            got = run_slave(c["env"])
        except Exception as e:                                   # noqa: BLE001
            got = [{"c": "harness-saw-exception", "what": repr(e)}]
        if got != c["calls"]:
            bad += 1
            if bad <= 3:
                k = next((i for i, (a, b) in enumerate(zip(got, c["calls"])) if a != b), min(len(got), len(c["calls"])))
                ctx.drift("Slave", "qs.slave.main does not follow Slave.tla: call %d is %r, the specification says %r (environment %s)"
                          % (k, got[k] if k < len(got) else None, c["calls"][k] if k < len(c["calls"]) else None,
                             json.dumps(c["env"])[:200]), {"env": c["env"], "predicted": c["calls"], "observed": got})
    ctx.cover(states=nstates, transitions=ntrans, traces_validated_against_impl=len(cases) - bad)
    longest = max(cases, key=lambda c: sum(1 for x in c["calls"] if x["c"] == "sleep"))
    ctx.set_cover(slave_behaviours_replayed=len(cases), slave_behaviours_differing=bad,
                  slave_longest_backoff=[0.5 * 2 ** x["e"] for x in longest["calls"] if x["c"] == "sleep"])
    ctx.sample({"kind": "Slave.tla behaviour replayed into qs.slave.main", "env": cases[len(cases) // 2]["env"],
                "calls": cases[len(cases) // 2]["calls"]})
    return len(cases), bad


# ----------------------------------------------------------------------------- RpcClient
def client_cfg(maxcalls, maxfaults, emit=True, hazard=False):
    return ("SPECIFICATION Spec\nCONSTANTS\n  MaxCalls = %d\n  MaxFaults = %d\n  EmitCases = %s\n"
            "INVARIANTS TypeOK AtMostTwoWrites AtMostTwoConnects NoResendAfterReply ReplyEndsCall FailureClosesSocket "
            "OneOutcomePerCall EmitTerminal%s\nCHECK_DEADLOCK FALSE\n"
            % (maxcalls, maxfaults, "TRUE" if emit else "FALSE", " AtMostOnce" if hazard else ""))


def run_client(env):
    """Drive the real RpcClient.send with the scripted socket layer; returns (ops, outs)."""
    from qs import rpcclient
    rpcclient.logger.setLevel(logging.CRITICAL)
    script = list(env)
    ops, outs = [], []
    ncalls = sum(1 for x in env if x in ("result", "error", "neither")) + 0

    def take(kind):
        if not script:
            raise AssertionError("script exhausted at %s" % kind)
        x = script.pop(0)
        return x

    class Reader:
        def readline(self):
            ops.append("read")
            x = take("read")
            if x == "result":
                return json.dumps({"result": {"n": 1}}) + "\n"
            if x == "error":
                return json.dumps({"error": "boom"}) + "\n"
            if x == "neither":
                return json.dumps({"other": 1}) + "\n"
            if x == "eof":
                return ""
            if x == "garbage":
                return "<html>not json</html>\n"
            if x == "reset":
                raise ConnectionResetError("reset by peer")
            raise AssertionError("script has %r where a read was expected" % x)

    class Writer:
        def __init__(self):
            self.buf = None

        def write(self, d):
            ops.append("write")
            x = take("write")
            if x == "write-fails":
                raise BrokenPipeError("broken pipe")
            if x != "write-ok":
                raise AssertionError("script has %r where a write was expected" % x)
            self.buf = d

        def flush(self):
            pass

    class Sock:
        def makefile(self, mode="r", *a, **kw):
            return Reader() if "r" in mode else Writer()

        def close(self):
            pass

    class FakeSocketModule:
        @staticmethod
        def create_connection(addr, *a, **kw):
            ops.append("connect")
            x = take("connect")
            if x == "connect-refused":
                raise ConnectionRefusedError("refused")
            if x != "connect-ok":
                raise AssertionError("script has %r where a connect was expected" % x)
            return Sock()

    saved = rpcclient.socket
    rpcclient.socket = FakeSocketModule
    try:
        c = rpcclient.RpcClient("h", 1)
        proxy = rpcclient.ServerProxy(rpc_client=c)
        while script:
            ops.append("call")
            try:
                r = proxy.qstats(x=1)
                outs.append("result" if r == {"n": 1} else "result:%r" % (r,))
            except RuntimeError as e:
                outs.append("RuntimeError" if str(e) == "boom" else "RuntimeError:%s" % e)
            except KeyError:
                outs.append("KeyError")
            except AssertionError as e:
                outs.append("script-mismatch: %s" % e)
                break
            except Exception:                                     # noqa: BLE001  transport failure propagates
                outs.append("exception")
    finally:
        rpcclient.socket = saved
    return ops, outs


def check_client(ctx, quick):
    mc, mf = (2, 3) if quick else (3, 4)
    res = tlc.run(ctx, "RpcClient", client_cfg(mc, mf), name="rpcclient", timeout=1200, coverage=True)
    if not res.ok:
        ctx.machinery("RpcClient.tla violates %s %s\n%s" % (res.kind, res.name, res.out[-1200:]))
    missing = tlc.uncovered_actions(res, ["Call", "Connect", "Write", "Read"])
    if missing:
        ctx.machinery("actions never taken in RpcClient.tla: %s" % missing)
    hz = tlc.run(ctx, "RpcClient", client_cfg(1, 1, emit=False, hazard=True), name="rpcclient_hazard", timeout=300)
    if not (hz.kind == "invariant" and hz.name == "AtMostOnce"):
        ctx.machinery("RpcClient.tla: the at-least-once hazard run should violate AtMostOnce, got %s %s" % (hz.kind, hz.name))
    cases = res.emitted
    bad = 0
    for c in cases:
        try:
            ops, outs = run_client(c["env"])
        except Exception as e:                                   # noqa: BLE001
            ops, outs = ["harness-saw-exception"], [repr(e)]
        # the model's last call may be cut short by the bound: compare what both did
        if ops != c["ops"] or outs != c["outs"]:
            bad += 1
            if bad <= 3:
                ctx.drift("RpcClient", "qs.rpcclient.RpcClient.send does not follow RpcClient.tla for environment %s: socket operations %s / outcomes %s, "
                          "the specification says %s / %s" % (json.dumps(c["env"]), ops, outs, c["ops"], c["outs"]),
                          {"env": c["env"], "predicted": [c["ops"], c["outs"]], "observed": [ops, outs]})
    ctx.cover(states=res.distinct, transitions=res.generated, traces_validated_against_impl=len(cases) - bad)
    ctx.set_cover(rpcclient_behaviours_replayed=len(cases), rpcclient_behaviours_differing=bad,
                  rpcclient_at_least_once_hazard=[hz.kind, hz.name])
    ctx.sample({"kind": "RpcClient.tla behaviour replayed into RpcClient.send", "case": cases[len(cases) // 2]})
    return len(cases), bad


def run(ctx, quick):
    check_slave(ctx, quick)
    check_client(ctx, quick)
