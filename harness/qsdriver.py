"""Drive the real qs job-queue server (qs.jobs.workq + qs.qserve.QPlugin) with real gevent, one
abstract operation at a time, and project its state onto the variables of spec/WorkQ.tla.

No code of the server is re-implemented: a connection is a QPlugin instance plus one greenlet
that behaves like rpcserver.handle_client's client greenlet (runs rpc_qpull, then parks; a
GreenletExit anywhere runs plugin.shutdown() like handle_client's `finally`).  Seams used:
qs.jobs.time (model clock), qs.jobs.random (the choice among eligible blocked pullers).

Atomicity: gevent's hub runs callbacks FIFO.  A *batch* of operations is submitted by spawning
one greenlet per operation, in order, followed by one gevent.sleep(0): the hub starts them back
to back and every wake-up they cause queues up behind the driver's own resumption.  `drain()`
then lets the loop run until nothing changes; every resumption / kill delivery records its own
event with the state right after it.
"""
import pickle
import sys

import gevent
from gevent import event as gevent_event

import logging

import qs.jobs
import qs.log
import qs.qserve

qs.log.root_logger.setLevel(logging.CRITICAL)
logging.getLogger("qserve").setLevel(logging.CRITICAL)

CHANNELS = ["c1", "c2"]


class Clock:
    def __init__(self, t=1):
        self.t = t

    def time(self):
        return float(self.t)


class Chooser:
    """Replacement for the `random` module inside qs.jobs: choice(alternatives)."""

    def __init__(self, driver):
        self.driver = driver

    def choice(self, alts):
        d = self.driver
        job = sys._getframe(1).f_locals.get("job")
        workers = []
        for ev in alts:
            w = d.worker_of_ev(ev)
            workers.append(w)
        pick = d.policy(job.serial if job is not None else None, workers)
        d.choices.append({"serial": getattr(job, "serial", None), "among": workers, "picked": pick})
        return alts[workers.index(pick)]


class Conn:
    def __init__(self, name):
        self.name = name
        self.plugin = None
        self.greenlet = None
        self.token = 0
        self.chs_obj = None       # identity of the channel list passed to pop (finds our waiter entry)
        self.state = "idle"       # driver's view: idle | blocked | closing | closed
        self.park = None


class Driver:
    def __init__(self, workers=("w1", "w2", "w3"), clients=("k1",), policy=None, channels=CHANNELS, result_hook=None):
        self.result_hook = result_hook or (lambda op: "r")
        self.clock = Clock(1)
        qs.jobs.time = self.clock
        self.chooser = Chooser(self)
        qs.jobs.random = self.chooser
        self.policy = policy or (lambda serial, workers: workers[0])
        self.channels = list(channels)
        self.workers = list(workers)
        self.clients = list(clients)
        self.db = qs.qserve.db()
        self.events = []
        self.choices = []
        self.pending_post = None
        self.errors = []
        self.wmap = {}
        self.latest_pull = None
        self.incarnation = 0
        self._new_incarnation()
        gevent.sleep(0)                     # let the connection greenlets park

    # ------------------------------------------------------------------ plumbing
    @property
    def wq(self):
        return self.db.workq

    def _new_incarnation(self):
        wq = self.db.workq

        class Plugin(qs.qserve.QPlugin):
            workq = wq
        self.Plugin = Plugin
        self.conns = {}
        for w in self.workers:
            c = Conn(w)
            c.plugin = Plugin()
            c.park = gevent_event.Event()
            c.token = 1
            c.greenlet = gevent.spawn(self._idle_body, w, c.token)
            self.conns[w] = c
        self.admin = Plugin()
        self.cl = {}
        for k in self.clients:
            self.cl[k] = {"plugin": Plugin(), "waiting": 0, "greenlet": None, "token": 0}

    def _learn(self):
        """Map every entry of workq._waiters to the connection that registered it.  rpc_qpull
        replaces an empty channel list by a fresh [] of its own, so entries are recognised by
        arrival: pulls are started one at a time and every snapshot happens before the next
        pull starts, hence at most one entry is unknown - it belongs to the latest pull."""
        for watching, ev in self.wq._waiters:
            if id(watching) not in self.wmap:      # the list object lives as long as the pop call
                self.wmap[id(watching)] = (self.latest_pull, watching)

    def worker_of_ev(self, ev):
        self._learn()
        for watching, e in self.wq._waiters:
            if e is ev:
                return self.wmap[id(watching)][0]
        return None

    # ------------------------------------------------------------------ projection
    def snap(self):
        wq = self.wq
        reach = {}
        for j in wq.id2job.values():
            reach[j.serial] = j
        for q in wq.channel2q.values():
            for j in q:
                reach[j.serial] = j
        waiters = {}
        for w, c in self.conns.items():
            waiters[w] = {"on": False, "chs": [], "box": 0}
        for watching, ev in wq._waiters:
            w = self.worker_of_ev(ev)
            box = 0
            if ev.ready():
                box = ev.value.serial
                reach[box] = ev.value
            waiters[w] = {"on": True, "chs": sorted(watching), "box": box}
        running = {}
        for w, c in self.conns.items():
            if c.state == "closed":        # handle_client drops the plugin after shutdown()
                running[w] = []
                continue
            running[w] = [j.serial for j in c.plugin.running_jobs.values()]
            for j in c.plugin.running_jobs.values():
                reach[j.serial] = j
        jobs = []
        for s in range(1, wq.count + 1):
            j = reach.get(s)
            if j is None:
                jobs.append({"gone": True})
                continue
            e = j.error
            jobs.append({
                "gone": False, "id": j.jobid, "ch": j.channel, "prio": j.priority, "done": bool(j.done),
                "err": "none" if e is None else (e if e in ("killed", "timeout") else "err"),
                "res": "none" if j.result is None else "r",
                "tmo": int(j.timeout), "info": len(j.info), "ttl": int(j.ttl),
                "deadline": int(j.deadline or 0), "drop": bool(j.drop),
            })
        heaps = {}
        for ch in self.channels:
            heaps[ch] = sorted(j.serial for j in wq.channel2q.get(ch, []))
        stats = {}
        for ch in self.channels:
            st = wq._channel2count.get(ch, {})
            stats[ch] = {k: int(st.get(k, 0)) for k in ("success", "killed", "timeout", "error")}
        return {
            "count": wq.count,
            "jobs": jobs,
            "bound": {i: j.serial for i, j in wq.id2job.items()},
            "heaps": heaps,
            "waiters": waiters,
            "running": running,
            "stats": stats,
            "now": self.clock.t,
            "fwait": {k: v["waiting"] for k, v in self.cl.items()},
        }

    def _fill(self):
        if self.pending_post is not None:
            self.pending_post["post"] = self.snap()
            self.pending_post = None

    def _event(self, ev, defer=False):
        self.events.append(ev)
        if defer:
            self.pending_post = ev
        else:
            ev["post"] = self.snap()

    # ------------------------------------------------------------------ greenlet bodies
    def _conn_body(self, w, token, chs):
        c = self.conns[w]
        inc = self.incarnation
        try:
            ev = {"op": "pull", "w": w, "chs": sorted(chs), "got": 0}
            self._fill()
            c.chs_obj = list(chs)
            self._learn()
            self.latest_pull = w
            self.events.append(ev)
            self.pending_post = ev          # filled by whoever runs next if we block
            blocked = {"v": True}
            n_before = len(self.wq._waiters)
            ret = c.plugin.rpc_qpull(c.chs_obj)
            # back here either immediately (job available) or after a wake-up
            if self.incarnation != inc:
                return                      # the server was restarted meanwhile: not our world any more
            if self.pending_post is ev:
                # returned without blocking
                ev["got"] = ret["serial"]
                ev["post"] = self.snap()
                self.pending_post = None
            else:
                self._fill()
                self._event({"op": "deliver", "k": "value", "w": w, "got": ret["serial"]})
            if c.token == token and c.state == "blocked":
                c.state = "idle"
            c.park.wait()                   # like lineq.get() in handle_client
        except gevent.GreenletExit:
            if c.token == token:
                self._fill()
                c.plugin.shutdown()         # handle_client: finally: handle_request.shutdown()
                c.state = "closed"
                self._event({"op": "deliver", "k": "kill", "w": w})
        except Exception as e:              # noqa: BLE001
            self.errors.append(("conn", w, repr(e)))

    def _idle_body(self, w, token):
        c = self.conns[w]
        try:
            c.park.wait()
        except gevent.GreenletExit:
            if c.token == token:
                self._fill()
                c.plugin.shutdown()
                c.state = "closed"
                self._event({"op": "deliver", "k": "kill", "w": w})

    def _connect_body(self, w, token):
        c = self.conns[w]
        self._fill()
        c.plugin = self.Plugin()
        c.state = "idle"
        self._event({"op": "connect", "w": w})
        self._idle_body(w, token)

    def _client_body(self, k, token, jid):
        cl = self.cl[k]
        inc = self.incarnation
        try:
            self._fill()
            ev = {"op": "wait", "c": k, "id": jid}
            wq = self.wq
            j = wq.id2job.get(jid)
            if j is None:
                ev["error"] = True
                self._event(ev)
                return
            ev["blocked"] = not j.done
            cl["waiting"] = 0 if j.done else j.serial
            self.events.append(ev)
            self.pending_post = ev
            ret = cl["plugin"].rpc_qwait([jid])
            if self.incarnation != inc:
                return
            if self.pending_post is ev:
                ev["post"] = self.snap()
                self.pending_post = None
            else:
                cl["waiting"] = 0
                self._fill()
                self._event({"op": "deliver", "k": "evt", "w": k, "done": bool(ret[0]["done"])})
        except gevent.GreenletExit:
            pass
        except Exception as e:              # noqa: BLE001
            self.errors.append(("client", k, repr(e)))

    # ------------------------------------------------------------------ operations
    def _op(self, op):
        """Runs inside its own greenlet (one per operation of the batch)."""
        kind = op["op"]
        wq = self.wq
        try:
            self._fill()
            ev = dict(op)
            if kind == "add":
                n = wq.count
                self.choices = []
                ev["ret"] = self.admin.rpc_qadd(channel=op["ch"], payload=None, priority=op["prio"], jobid=op["id"],
                                                timeout=op["tmo"], ttl=op["ttl"])
                ev["new"] = wq.count > n
            elif kind == "finish":
                c = self.conns[op["w"]]
                err = None if op["err"] == "none" else "boom"
                try:
                    c.plugin.rpc_qfinish(op["id"], result=(self.result_hook(op) if err is None else None), error=err)
                except KeyError:
                    ev["error"] = True
            elif kind == "kill":
                p = self.admin if op["k"] == "admin" else self.conns[op["k"]].plugin
                p.rpc_qkill([op["id"]])
            elif kind == "tick":
                self.clock.t += 1
                wq.handletimeouts()
            elif kind == "setinfo":
                try:
                    self.admin.rpc_qsetinfo(op["id"], {"k%d" % (len(wq.id2job[op["id"]].info) + 1): 1})
                except KeyError:
                    ev["error"] = True
            elif kind == "drop":
                self.admin.rpc_qdrop([op["id"]])
            elif kind == "watchdog":
                wq.dropdead()
            elif kind == "stats":
                st = self.admin.rpc_getstats()
                ev["ret"] = {"count": st["count"], "numjobs": st["numjobs"],
                             "busy": {c: int(st["busy"].get(c, 0)) for c in self.channels}}
            elif kind == "disconnect":
                c = self.conns[op["w"]]
                c.state = "closing"
                c.greenlet.kill(block=False)       # queued FIFO behind the pending callbacks
            else:
                raise ValueError(kind)
            self._event(ev)
        except Exception as e:              # noqa: BLE001
            self.errors.append(("op", op, repr(e)))

    def submit(self, op):
        """Queue one operation of the current batch (runs when the driver next yields)."""
        kind = op["op"]
        if kind == "pull":
            c = self.conns[op["w"]]
            c.token += 1
            c.state = "blocked"             # corrected to idle by the body if it returns at once
            c.park = gevent_event.Event()
            c.greenlet = gevent.spawn(self._conn_body, op["w"], c.token, list(op["chs"]))
        elif kind == "connect":
            c = self.conns[op["w"]]
            c.token += 1
            c.park = gevent_event.Event()
            c.greenlet = gevent.spawn(self._connect_body, op["w"], c.token)
        elif kind == "wait":
            cl = self.cl[op["c"]]
            cl["token"] += 1
            cl["greenlet"] = gevent.spawn(self._client_body, op["c"], cl["token"], op["id"])
        else:
            gevent.spawn(self._op, op)

    def run_batch(self, ops):
        for op in ops:
            self.submit(op)
        gevent.sleep(0)
        self._fill()

    def drain(self):
        """Let the event loop run until its callback queue is empty (nothing changes any more)."""
        prev = None
        for _ in range(12):
            gevent.sleep(0)
            self._fill()
            cur = (len(self.events), repr(self.snap()))
            if cur == prev:
                break
            prev = cur
        self._event({"op": "quiet"})

    def restart(self, via_file=None):
        """Stop the server, save, start again from the saved state."""
        self._fill()
        self.incarnation += 1
        for c in self.conns.values():
            c.token += 1                     # old greenlets must not run shutdown on the new server
            if c.greenlet is not None and not c.greenlet.dead:
                c.greenlet.kill(block=False)
        for cl in self.cl.values():
            cl["token"] += 1
            if cl["greenlet"] is not None and not cl["greenlet"].dead:
                cl["greenlet"].kill(block=False)
            cl["waiting"] = 0
        if via_file:
            m = qs.qserve.Main.__new__(qs.qserve.Main)
            m.qpath = via_file
            m.db = self.db
            m.savedb()
            m2 = qs.qserve.Main.__new__(qs.qserve.Main)
            m2.data_dir = __import__("os").path.dirname(via_file)
            m2.loaddb()
            self.db = m2.db
        else:
            self.db = pickle.loads(pickle.dumps(self.db, 2))
        gevent.sleep(0)
        gevent.sleep(0)
        self._new_incarnation()
        self._event({"op": "restart"})

    def close(self):
        for c in self.conns.values():
            c.token += 1
            if c.greenlet is not None and not c.greenlet.dead:
                c.greenlet.kill(block=False)
        for cl in self.cl.values():
            cl["token"] += 1
            if cl["greenlet"] is not None and not cl["greenlet"].dead:
                cl["greenlet"].kill(block=False)
        gevent.sleep(0)
        gevent.sleep(0)


def run_sequence(ops, policy=None, workers=("w1", "w2", "w3"), clients=("k1",)):
    """ops: list of operations; {"op":"runloop"} separates batches; {"op":"restart"} restarts.
    Returns (events, errors)."""
    d = Driver(workers=workers, clients=clients, policy=policy)
    batch = []
    for op in ops:
        if op["op"] in ("runloop", "restart"):
            if batch:
                d.run_batch(batch)
                batch = []
            if op["op"] == "runloop":
                d.drain()
            else:
                d.restart(op.get("file"))
        else:
            batch.append(op)
    if batch:
        d.run_batch(batch)
    d.drain()
    ev, er = d.events, d.errors
    d.close()
    return ev, er
