"""Drive the REAL qs job-queue server - qs.rpcserver.Server.handle_client + qs.qserve.QPlugin +
qs.jobs.workq - under real gevent, one abstract operation at a time, and project its state onto
the variables of spec/WorkQ.tla.

Nothing of the server is re-implemented.  A connection is a ClientGreenlet running the real
`Server.handle_client(sock, addr)` on a fake socket whose `readline()` blocks on a gevent queue
(EOF = the empty line).  Requests are the JSON lines of the RPC protocol.  The request handler is
the same kind of subclass `qserve.Main.run` builds (RequestHandler + QPlugin with `workq` bound),
wrapped only to *observe*: it records one event per atomic step with the projected state.
Seams used: qs.jobs.time (model clock), qs.jobs.random (choice among eligible blocked pullers).

Atomicity.  gevent's hub runs callbacks FIFO.  A request needs two hops (reader greenlet ->
client greenlet).  A *batch* of operations is submitted at once; all their dispatches run back to
back, in submission order, before any wake-up they cause (those callbacks queue up behind).
`drain()` then lets the loop run until nothing changes; every resumption of a blocked puller /
kill delivery / client release records its own event.  A batch boundary therefore always is a
run of the event loop.
"""
import collections
import io
import json
import logging
import pickle
import sys

import gevent
import gevent.queue

import qs.jobs
import qs.log
import qs.qserve
import qs.rpcserver

qs.log.root_logger.setLevel(logging.CRITICAL)
logging.getLogger("qserve").setLevel(logging.CRITICAL)

CHANNELS = ["c1", "c2"]
N_ADMIN = 12


class BatchTooLong(Exception):
    """more admin requests in one batch than pooled admin connections"""


class Clock:
    def __init__(self, t=1):
        self.t = t

    def time(self):
        return float(self.t)


class Chooser:
    """Replacement for the `random` module inside qs.jobs: choice(alternatives)."""

    def __init__(self, driver):
        self.driver = driver

    def choice(self, alts):
        d = self.driver
        job = sys._getframe(1).f_locals.get("job")
        workers = [d.worker_of_ev(ev) for ev in alts]
        pick = d.policy(job.serial if job is not None else None, workers)
        return alts[workers.index(pick)]


class FakeSock:
    """socket + its makefile("rw") in one object."""

    def __init__(self):
        self.q = gevent.queue.Queue()
        self.out = []
        self.closed = False

    def makefile(self, mode="r", *args, **kw):      # buffering / encoding / newline: accepted like a real socket's
        return self

    log = None                      # set to a list to record the raw socket events (harness/rpcconn.py)

    def readline(self):
        line = self.q.get()
        if self.log is not None:
            self.log.append(("recv", line))
        return line

    def write(self, s):
        self.out.append(s)
        if self.log is not None:
            self.log.append(("send", s))

    def flush(self):
        pass

    def close(self):
        self.closed = True
        if self.log is not None:
            self.log.append(("close", ""))


class Conn:
    def __init__(self, name, idx):
        self.name = name
        self.idx = idx
        self.sock = None
        self.greenlet = None
        self.handler = None
        self.state = "idle"            # idle | blocked | closing | closed   (driver's view)
        self.submitted = collections.deque()
        self.eof_sent = False
        self.in_pull = False
        self.in_wait = False
        self.resumed_ev = None
        self.waiting = 0               # clients: serial waited for
        self.disc_recorded = False
        self.disc_seq = None
        self.held = {}                 # job id -> serial: pulled over this connection, not reported since

    @property
    def plugin(self):
        return self.handler


class Driver:
    def __init__(self, workers=("w1", "w2", "w3"), clients=("k1",), policy=None, channels=CHANNELS, result_hook=None,
                 restart_via_file=False):
        self.result_hook = result_hook or (lambda op: "r")
        self.data_dir = None
        if restart_via_file:
            import tempfile
            self.data_dir = tempfile.mkdtemp(prefix="qs-data-")
        self.clock = Clock(1)
        qs.jobs.time = self.clock
        qs.jobs.random = Chooser(self)
        self.policy = policy or (lambda serial, workers: workers[0])
        self.channels = list(channels)
        self.workers = list(workers)
        self.clients = list(clients)
        if self.data_dir:
            self.main = qs.qserve.Main(0, "localhost", self.data_dir, None)
            self.db = self.main.db
        else:
            self.db = qs.qserve.db()
        self.events = []
        self.errors = []
        self.pending_post = None
        self.wmap = {}
        self.latest_pull = None
        self.incarnation = 0
        self.seq = 0
        self.batch_disc = []
        try:
            gevent.get_hub().exception_stream = io.StringIO()     # handle_client's link kills from the hub: noisy
        except Exception:                                         # noqa: BLE001
            pass
        self._new_incarnation()

    # ------------------------------------------------------------------ server / connections
    @property
    def wq(self):
        return self.db.workq

    def _new_incarnation(self):
        drv = self
        wq = self.db.workq
        db = self.db
        inc = self.incarnation

        class Handler(qs.rpcserver.RequestHandler, qs.qserve.QPlugin):
            workq = wq

            def __init__(self, **kw):
                super().__init__(**kw)
                self._conn = drv.by_idx[kw["client"][1][1]]
                self._conn.handler = self
                self._inc = inc

            def __call__(self, req):
                return drv._dispatch(self, req, super().__call__)

            def shutdown(self):
                return drv._on_shutdown(self, super().shutdown)

        Handler.db = db
        srv = qs.rpcserver.Server.__new__(qs.rpcserver.Server)
        srv.get_request_handler = Handler
        srv.is_allowed = lambda ip: True
        srv.client_count = 0
        srv.secret = None
        self.srv = srv
        self.conns = {}
        self.cl = {}
        self.by_idx = {}
        # requests of one connection are served back to back once its client greenlet runs, so
        # every request of a batch that must keep its place in the submission order gets a
        # connection of its own: a pool of admin connections (they hold no state)
        self.admins = []
        self.admin_next = 0
        names = list(self.workers) + ["admin%d" % i for i in range(N_ADMIN)] + list(self.clients)
        for i, n in enumerate(names):
            c = Conn(n, i + 1)
            self.by_idx[c.idx] = c
            if n in self.workers:
                self.conns[n] = c
            elif n.startswith("admin"):
                self.admins.append(c)
            else:
                self.cl[n] = c
            self._connect(c)
        self.admin_conn = self.admins[0]
        # service pseudo-connection for server-internal loops (handletimeouts, watchdog): same two
        # hops as a request so that it keeps its place in the submission order
        self.svc_q1 = gevent.queue.Queue()
        self.svc_q2 = gevent.queue.Queue()
        self.svc = [gevent.spawn(self._svc_reader, inc), gevent.spawn(self._svc_runner, inc)]
        for _ in range(3):
            gevent.sleep(0)                  # let everybody reach their blocking point

    @property
    def admin(self):
        return self.admin_conn.handler

    def _connect(self, c):
        c.sock = FakeSock()
        c.handler = None               # created by handle_client when the greenlet starts
        c.state = "idle"
        c.eof_sent = False
        c.in_pull = c.in_wait = False
        c.resumed_ev = None
        c.disc_recorded = False
        c.held = {}
        c.submitted.clear()
        c.greenlet = qs.rpcserver.ClientGreenlet(self.srv.handle_client, c.sock, ("127.0.0.1", c.idx))
        c.greenlet.start()

    def _svc_reader(self, inc):
        while True:
            item = self.svc_q1.get()
            self.svc_q2.put(item)

    def _svc_runner(self, inc):
        while True:
            seq, op = self.svc_q2.get()
            if self.incarnation != inc:
                return
            try:
                self._fill()
                if op["op"] == "tick":
                    self.clock.t += 1
                    self.wq.handletimeouts()
                elif op["op"] == "watchdog":
                    self.wq.dropdead()
                elif op["op"] == "connect":
                    self._connect(self.conns[op["w"]])
                self._event(dict(op), seq)
            except Exception as e:           # noqa: BLE001
                self.errors.append(("svc", op, repr(e)))

    def _learn(self):
        """Map every entry of workq._waiters to the connection that registered it: pulls start one
        at a time and every snapshot happens before the next pull starts, so at most one entry is
        unknown - it belongs to the latest pull.  Keyed on the channel-list object, which lives as
        long as the pop call (also across its internal retry)."""
        for watching, ev in self.wq._waiters:
            if id(watching) not in self.wmap:
                self.wmap[id(watching)] = (self.latest_pull, watching)

    def worker_of_ev(self, ev):
        self._learn()
        for watching, e in self.wq._waiters:
            if e is ev:
                return self.wmap[id(watching)][0]
        return None

    # ------------------------------------------------------------------ projection
    def snap(self):
        wq = self.wq
        reach = {}
        for j in wq.id2job.values():
            reach[j.serial] = j
        for q in wq.channel2q.values():
            for j in q:
                reach[j.serial] = j
        waiters = {w: {"on": False, "chs": [], "box": 0} for w in self.conns}
        for watching, ev in wq._waiters:
            w = self.worker_of_ev(ev)
            box = 0
            if ev.ready():
                box = ev.value.serial
                reach[box] = ev.value
            waiters[w] = {"on": True, "chs": sorted(watching), "box": box}
        # what a connection "runs" is observed from outside (the jobs its pulls returned minus those
        # it reported or killed since) - how QPlugin keeps its books is not the property's business.
        # A pulled job whose id has been bound to a newer job is reachable only through the timeout
        # queue or through what an earlier snapshot saw: `seen` remembers the objects of this incarnation.
        for ent in getattr(wq, "timeoutq", ()):
            j = ent[-1] if isinstance(ent, tuple) else ent
            if hasattr(j, "serial"):
                reach.setdefault(j.serial, j)
        seen = self.__dict__.setdefault("_seen", {})
        if seen.get("inc") != self.incarnation:
            seen.clear()
            seen["inc"] = self.incarnation
        for s_, j in reach.items():
            seen[s_] = j
        for s_, j in seen.items():
            if s_ != "inc":
                reach.setdefault(s_, j)
        running = {}
        for w, c in self.conns.items():
            if c.state == "closed" or c.handler is None:      # handle_client drops the handler after shutdown()
                running[w] = []
                continue
            running[w] = list(c.held.values())
        jobs = []
        for s in range(1, wq.count + 1):
            j = reach.get(s)
            if j is None:
                jobs.append({"gone": True})
                continue
            e = j.error
            jobs.append({
                "gone": False, "id": j.jobid, "ch": j.channel, "prio": j.priority, "done": bool(j.done),
                "err": "none" if e is None else (e if e in ("killed", "timeout") else "err"),
                "res": "none" if j.result is None else "r",
                "tmo": int(j.timeout), "info": len(j.info), "ttl": int(j.ttl),
                "deadline": int(j.deadline or 0), "drop": bool(j.drop),
            })
        # the queue of a channel as the property means it: the unfinished jobs waiting there (whether
        # a finished job still lingers in the heap until it is preened is an implementation detail)
        heaps = {ch: sorted(j.serial for j in wq.channel2q.get(ch, []) if not j.done) for ch in self.channels}
        stats = {}
        for ch in self.channels:
            st = wq._channel2count.get(ch, {})
            stats[ch] = {k: int(st.get(k, 0)) for k in ("success", "killed", "timeout", "error")}
        return {
            "count": wq.count, "jobs": jobs, "bound": {i: j.serial for i, j in wq.id2job.items()},
            "heaps": heaps, "waiters": waiters, "running": running, "stats": stats, "now": self.clock.t,
            "fwait": {k: c.waiting for k, c in self.cl.items()},
        }

    def _fill(self):
        if self.pending_post is not None:
            self.pending_post["post"] = self.snap()
            self.pending_post = None

    def _event(self, ev, seq=None, defer=False):
        ev["_seq"] = seq if seq is not None else self.seq + 0.5
        self.events.append(ev)
        if defer:
            self.pending_post = ev
        else:
            ev["post"] = self.snap()

    # ------------------------------------------------------------------ observation hooks
    def _dispatch(self, handler, req, call):
        c = handler._conn
        if handler._inc != self.incarnation:
            return call(req)
        name, kw = req
        seq, op = c.submitted.popleft() if c.submitted else (None, {"op": name})
        self._fill()
        ev = dict(op)
        if name == "qpull":
            ev["got"] = 0
            self._learn()
            self.latest_pull = c.name
            c.state = "blocked"
            c.in_pull = True
            self._event(ev, seq, defer=True)
            ret = call(req)                  # may block in workq.pop; GreenletExit propagates
            if handler._inc != self.incarnation:
                return ret
            c.in_pull = False
            c.held[ret["jobid"]] = ret["serial"]
            if self.pending_post is ev:      # returned without blocking
                ev["got"] = ret["serial"]
                ev["post"] = self.snap()
                self.pending_post = None
                c.state = "closing" if c.eof_sent else "idle"
            else:
                self._fill()
                dv = {"op": "deliver", "k": "value", "w": c.name, "got": ret["serial"]}
                if c.eof_sent:
                    c.resumed_ev = dv        # shutdown follows in this very callback: one step
                else:
                    c.state = "idle"
                    self._event(dv)
            return ret
        if name == "qwait":
            j = self.wq.id2job.get(kw["jobids"][0])
            if j is None:
                ev["error"] = True
                try:
                    return call(req)
                finally:
                    self._event(ev, seq)
            ev["blocked"] = not j.done
            c.waiting = 0 if j.done else j.serial
            c.in_wait = True
            self._event(ev, seq, defer=True)
            ret = call(req)
            if handler._inc != self.incarnation:
                return ret
            c.in_wait = False
            if self.pending_post is ev:
                ev["post"] = self.snap()
                self.pending_post = None
            else:
                c.waiting = 0
                self._fill()
                self._event({"op": "deliver", "k": "evt", "w": c.name, "done": bool(ret[0]["done"])})
            return ret
        # non-blocking requests
        n = self.wq.count
        try:
            ret = call(req)
        except KeyError:
            ev["error"] = True
            self._event(ev, seq)
            raise
        except Exception as e:               # noqa: BLE001
            self.errors.append(("request", op, repr(e)))
            self._event(ev, seq)
            raise
        if name == "qfinish":
            c.held.pop(kw.get("jobid"), None)
        elif name == "qkill":
            for i in kw.get("jobids", []):
                c.held.pop(i, None)
        if name == "qadd":
            ev["ret"] = ret
            ev["new"] = self.wq.count > n
        elif name == "getstats":
            ev["ret"] = {"count": ret["count"], "numjobs": ret["numjobs"],
                         "busy": {ch: int(ret["busy"].get(ch, 0)) for ch in self.channels}}
        self._event(ev, seq)
        return ret

    def _on_shutdown(self, handler, call):
        c = handler._conn
        if handler._inc != self.incarnation:
            return                            # the old server's connections died with it
        self._fill()
        call()
        c.state = "closed"
        c.held = {}
        if c.name not in self.conns:
            return
        if c.resumed_ev is not None:
            ev, c.resumed_ev = c.resumed_ev, None
            self._event(ev)
        elif c.in_pull:
            c.in_pull = False
            self._event({"op": "deliver", "k": "kill", "w": c.name})
        else:
            c.disc_recorded = True
            self._event({"op": "disconnect", "w": c.name}, c.disc_seq)

    # ------------------------------------------------------------------ submitting operations
    def _send(self, c, seq, op, name, **kw):
        c.submitted.append((seq, op))
        c.sock.q.put(json.dumps([name, kw]) + "\n")

    def _admin(self):
        if self.admin_next >= len(self.admins):
            raise BatchTooLong()
        c = self.admins[self.admin_next]
        self.admin_next += 1
        return c

    def submit(self, op):
        self.seq += 1
        seq = self.seq
        k = op["op"]
        if k == "add":
            self._send(self._admin(), seq, op, "qadd", channel=op["ch"], priority=op["prio"], jobid=op["id"],
                       timeout=op["tmo"], ttl=op["ttl"])
        elif k == "pull":
            self._send(self.conns[op["w"]], seq, op, "qpull", channels=list(op["chs"]))
        elif k == "finish":
            err = None if op["err"] == "none" else "boom"
            self._send(self.conns[op["w"]], seq, op, "qfinish", jobid=op["id"],
                       result=(self.result_hook(op) if err is None else None), error=err)
        elif k == "kill":
            c = self._admin() if op["k"] == "admin" else self.conns[op["k"]]
            self._send(c, seq, op, "qkill", jobids=[op["id"]])
        elif k == "setinfo":
            self._send(self._admin(), seq, op, "qsetinfo", jobid=op["id"], info={"k%d" % seq: 1})
        elif k == "drop":
            self._send(self._admin(), seq, op, "qdrop", jobids=[op["id"]])
        elif k == "stats":
            self._send(self._admin(), seq, op, "getstats")
        elif k == "wait":
            self._send(self.cl[op["c"]], seq, op, "qwait", jobids=[op["id"]])
        elif k == "disconnect":
            c = self.conns[op["w"]]
            c.eof_sent = True
            c.disc_seq = seq
            c.disc_recorded = False
            c.state = "closing"
            self.batch_disc.append((seq, c))
            c.sock.q.put("")                 # EOF
        elif k in ("tick", "watchdog", "connect"):
            self.svc_q1.put((seq, op))
        else:
            raise ValueError(k)

    def run_batch(self, ops):
        if sum(1 for o in ops if o["op"] in ("add", "setinfo", "drop", "stats") or o.get("k") == "admin") > len(self.admins):
            raise BatchTooLong()
        self.admin_next = 0
        self.batch_disc = []
        e0 = len(self.events)
        for op in ops:
            self.submit(op)
        gevent.sleep(0)
        gevent.sleep(0)
        # every submitted operation has run (or, for the EOF of a connection blocked in pull, has
        # been seen by its reader); their wake-ups are still queued
        self._fill()
        # the EOF of a blocked connection changes nothing observable at its own position: insert
        # its event where it was submitted, with the state of its predecessor
        for seq, c in self.batch_disc:
            if c.disc_recorded:
                continue
            evs = self.events
            pos = len(evs)                   # right after the last operation submitted before it
            while pos > e0 and evs[pos - 1].get("_seq", 0) > seq:
                pos -= 1
            post = evs[pos - 1]["post"] if pos > 0 else self.snap()
            evs.insert(pos, {"op": "disconnect", "w": c.name, "_seq": seq, "post": post})
            c.disc_recorded = True
        got = len([e for e in self.events[e0:] if e["op"] != "deliver"])
        if got != len(ops):
            self.errors.append(("batch", "submitted %d operations, observed %d events" % (len(ops), got),
                                [e["op"] for e in self.events[e0:]]))

    def drain(self):
        """Let the event loop run until its callback queue is empty (nothing changes any more)."""
        prev = None
        for _ in range(16):
            gevent.sleep(0)
            self._fill()
            cur = (len(self.events), repr(self.snap()))
            if cur == prev:
                break
            prev = cur
        self._event({"op": "quiet"})

    def _old_greenlets(self):
        return [c.greenlet for c in list(self.conns.values()) + self.admins + list(self.cl.values())] + self.svc

    def restart(self, via_file=None):
        """Stop the server, save, start again from the saved state."""
        self._fill()
        self.incarnation += 1
        old = self._old_greenlets()
        if self.data_dir:
            # the server's own way: Main.savedb when it stops, a new Main (-> loaddb) on the same data dir
            self.main.db = self.db
            self.main.savedb()
            self.main = qs.qserve.Main(0, "localhost", self.data_dir, None)
            self.db = self.main.db
        else:
            self.db = pickle.loads(pickle.dumps(self.db, 2))
        for g in old:
            if g is not None and not g.dead:
                g.kill(block=False)
        gevent.sleep(0)
        gevent.sleep(0)
        self.wmap = {}
        self._new_incarnation()
        self._event({"op": "restart"})

    def close(self):
        if self.data_dir:
            __import__("shutil").rmtree(self.data_dir, ignore_errors=True)
            self.data_dir = None
        self.incarnation += 1
        for g in self._old_greenlets():
            if g is not None and not g.dead:
                g.kill(block=False)
        gevent.sleep(0)
        gevent.sleep(0)


def run_sequence(ops, policy=None, workers=("w1", "w2", "w3"), clients=("k1",)):
    """ops: list of operations; {"op":"runloop"} separates batches; {"op":"restart"} restarts.
    Returns (events, errors)."""
    d = Driver(workers=workers, clients=clients, policy=policy)
    batch = []
    for op in ops:
        if op["op"] in ("runloop", "restart"):
            if batch:
                d.run_batch(batch)
                batch = []
            if op["op"] == "runloop":
                d.drain()
            else:
                d.restart(op.get("file"))
        else:
            batch.append(op)
    if batch:
        d.run_batch(batch)
    d.drain()
    ev, er = d.events, d.errors
    d.close()
    return ev, er
