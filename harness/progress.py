"""Beyond the listed properties: spec/Progress.tla bound to mwlib.utils.status.Status by P-REPLAY
(every behaviour TLC enumerates / simulates is stepped through real Status objects and the shared
status dictionary is compared after each step)."""
from . import tlc

SCALE = 10000


def cfg(maxlen, reporters=3, emit=True):
    return ("SPECIFICATION Spec\nCONSTANTS\n  MaxReporters = %d\n  MaxLen = %d\n  EmitCases = %s\n"
            "INVARIANTS TypeOK InRange Nested EmitFull\nPROPERTIES Monotone OwnSliceBound\nCHECK_DEADLOCK FALSE\n"
            % (reporters, maxlen, "TRUE" if emit else "FALSE"))


def project(d):
    p = d.get("progress", None)
    return {"status": d.get("status", "absent"), "article": d.get("article", "absent"),
            "progress": -1 if p is None else p * SCALE}


def replay(hist):
    from mwlib.utils import status as S
    saved = S.Status.stdout
    S.Status.stdout = None
    try:
        reps = [S.Status()]
        for k, h in enumerate(hist):
            if h["a"] == "sub":
                r = reps[h["r"] - 1].get_sub_range(h["s"], h["e"])
                reps.append(r)
                lo, hi = r.progress_range
                if abs(lo * SCALE - h["lo"]) > 1e-6 or abs(hi * SCALE - h["hi"]) > 1e-6:
                    return "step %d get_sub_range(%s, %s) on reporter %d: range %r, specification %r" % (
                        k + 1, h["s"], h["e"], h["r"], (lo, hi), (h["lo"] / SCALE, h["hi"] / SCALE))
            else:
                kw = {}
                if h["status"] != "none":
                    kw["status"] = h["status"]
                if h["progress"] != -1000:
                    kw["progress"] = h["progress"]
                if h["article"] != "none":
                    kw["article"] = h["article"]
                reps[h["r"] - 1](**kw)
                got = project(reps[0].status)
                exp = h["post"]
                if got["status"] != exp["status"] or got["article"] != exp["article"] or abs(got["progress"] - exp["progress"]) > 1e-6:
                    return "step %d reporter %d called with %r: status dictionary %r, specification %r" % (k + 1, h["r"], kw, got, exp)
    finally:
        S.Status.stdout = saved
    return None


def check(ctx, quick):
    res = tlc.run(ctx, "Progress", cfg(2), name="progress_bfs", timeout=900, coverage=True, heap="4g")
    if not res.ok:
        ctx.machinery("Progress.tla violates %s %s\n%s" % (res.kind, res.name, res.out[-1200:]))
    missing = tlc.uncovered_actions(res, ["DoSub", "DoReport"])
    if missing:
        ctx.machinery("actions never taken in Progress.tla: %s" % missing)
    n = 2000 if quick else 20000
    sim = tlc.run(ctx, "Progress", cfg(9), name="progress_sim", simulate=max(1, n // 8), depth=10, seed=ctx.seed + 3,
                  timeout=900, workers=1)
    if not sim.ok:
        ctx.machinery("Progress.tla (simulation) violates %s %s" % (sim.kind, sim.name))
    cases = [c["hist"] for c in res.emitted] + [c["hist"] for c in sim.emitted]
    bad = 0
    for h in cases:
        try:
            d = replay(h)
        except Exception as e:                                   # noqa: BLE001
            d = "the replay harness saw %r" % (e,)
        if d:
            bad += 1
            if bad <= 3:
                ctx.drift("Progress", "mwlib.utils.status.Status does not follow Progress.tla: " + d, {"hist": h, "difference": d})
    ctx.cover(states=res.distinct + sim.distinct, transitions=res.generated + sim.generated,
              traces_validated_against_impl=len(cases) - bad)
    ctx.set_cover(progress_behaviours_replayed=len(cases), progress_behaviours_differing=bad)
    if cases:
        ctx.sample({"kind": "Progress.tla behaviour replayed into mwlib.utils.status.Status", "hist": cases[-1]})
