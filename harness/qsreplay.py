"""P-REPLAY for the qs server: behaviours chosen by TLC stepped through the real code."""


def replay_behaviours(ctx, prop, quick):
    return
