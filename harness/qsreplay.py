"""P-REPLAY for the qs server: behaviours chosen by TLC (simulation of WorkQSim.tla with
AtomicDrain = TRUE) are stepped through the real code with TLC's nondeterministic choices
imposed (which blocked puller gets a job), and the projected real state is compared with TLC's
state after every step."""
import json
import multiprocessing

from . import qstrace
from . import tlc

FIELDS = ["count", "bound", "heaps", "waiters", "running", "stats", "now", "fwait", "jobs"]


def sim_cfg(prop, histlen):
    return ("SPECIFICATION SimSpec\n" +
            qstrace.const_block(qstrace.WORKERS, qstrace.CHANNELS, qstrace.JOBIDS, ["k1"], maxjobs=6, maxtime=4,
                                restart=(prop == "C18"), wait=(prop != "C16"), info=(prop == "C17"), drop=False,
                                reconnect=True, atomic=True) +
            "  HistLen = %d\nINVARIANTS EmitHist\nCONSTRAINT StopAtLen\nCHECK_DEADLOCK FALSE\n" % histlen)


def norm_spec_state(st):
    out = {
        "count": st["count"],
        "bound": {k: v for k, v in st["bound"].items() if v},
        "heaps": {c: sorted(s for s in v if not st["jobs"][s - 1]["done"]) for c, v in st["heaps"].items()},
        "waiters": {w: {"on": x["on"], "box": x["box"], "chs": sorted(x["chs"]) if x["on"] else []}
                    for w, x in st["waiters"].items()},
        "running": {w: list(v) for w, v in st["running"].items()},
        "stats": st["stats"],
        "now": st["now"],
        "fwait": st["fwait"],
        "jobs": st["jobs"],
    }
    return out


def norm_real_state(p):
    return {
        "count": p["count"], "bound": dict(p["bound"]), "heaps": p["heaps"],
        "waiters": {w: {"on": x["on"], "box": x["box"], "chs": x["chs"] if x["on"] else []} for w, x in p["waiters"].items()},
        "running": p["running"], "stats": p["stats"], "now": p["now"], "fwait": p["fwait"], "jobs": p["jobs"],
    }


def diff(spec, real, skip=()):
    s, r = norm_spec_state(spec), norm_real_state(real)
    out = []
    for f in FIELDS:
        if f in skip:
            continue
        if f == "jobs":
            if len(s["jobs"]) != len(r["jobs"]):
                out.append("jobs(len)")
                continue
            for i, (a, b) in enumerate(zip(s["jobs"], r["jobs"])):
                if b.get("gone"):
                    continue
                b = {k: v for k, v in b.items() if k != "gone"}
                if a != b:
                    # when the time-to-live of a finished job starts (at finishing, or at the first
                    # watchdog run after it - what the code does and TLC's behaviours assume) is not
                    # fixed by any property: tolerated, and remembered so that the behaviour is cut
                    # short before the next watchdog step, whose effect depends on it
                    if b.get("done") and a.get("deadline") == 0 and b.get("deadline") and \
                            dict(a, deadline=0) == dict(b, deadline=0) and isinstance(skip, set):
                        skip.add("~eager-deadline")
                        continue
                    out.append("jobs[%d]" % (i + 1))
        elif s[f] != r[f]:
            out.append(f)
    return out


def requeues_several(prev, last):
    """Does this step re-queue two or more jobs of one connection?  The order in which the code does
    that (insertion order of running_jobs) is not fixed by the property; TLC's simulation uses that
    order too, but a different, equally valid order must not be reported - such a step is skipped
    here (trace validation, which accepts every order, still judges it)."""
    if prev is None:
        return False
    # ... likewise the choice among several eligible blocked pullers: it is imposed through
    # qs.jobs.random.choice; code that picks one by another (equally valid) rule cannot be steered
    if sum(1 for x in prev["waiters"].values() if x["on"] and not x["box"]) >= 2:
        return True
    w = last.get("w")
    if last.get("op") not in ("disconnect", "deliver") or w not in prev["running"]:
        return False
    live = [s for s in prev["running"][w] if not prev["jobs"][s - 1]["done"]]
    box = prev["waiters"][w]["box"]
    return len(live) + (1 if box else 0) >= 2


def to_op(last):
    op = dict(last)
    k = op["op"]
    if k == "pull":
        return {"op": "pull", "w": op["w"], "chs": sorted(op["chs"])}
    if k == "add":
        return {"op": "add", "id": op["id"], "ch": op["ch"], "prio": op["prio"], "tmo": op["tmo"], "ttl": op["ttl"]}
    if k == "finish":
        return {"op": "finish", "w": op["w"], "id": op["id"], "err": op["err"]}
    if k in ("kill", "tick", "disconnect", "connect", "setinfo", "drop", "watchdog", "wait"):
        return {x: op[x] for x in op if x not in ("blocked",)}
    raise ValueError(k)


def replay_one(hist, workers=None, clients=None, channels=None, after_step=None, result_hook=None):
    """Returns {"ok": True, ...} or a dict describing the first disagreement.  after_step(driver,
    spec_step) is called after every compared quiescent step and may return a disagreement."""
    from . import qsdriver
    plan = {}

    def policy(serial, workers):
        q = plan.get(serial)
        if q:
            w = q.pop(0)
            if w in workers:
                return w
        return workers[0]

    def plan_from(prev, st):
        for w, x in st["waiters"].items():
            if x["on"] and x["box"] and (prev is None or prev["waiters"][w]["box"] != x["box"]):
                plan.setdefault(x["box"], []).append(w)

    d = qsdriver.Driver(workers=workers or qstrace.WORKERS, clients=clients or qstrace.CLIENTS, policy=policy,
                        channels=channels or qstrace.CHANNELS, result_hook=result_hook)
    # after a restart the outcome counters are free (C18 does not ask for them to be kept or reset)
    skip = set()
    _diff = diff

    def diff_(a, b):
        return _diff(a, b, skip)
    # cut the behaviour into segments: [ops...] then optionally a complete drain
    i = 0
    n = len(hist)
    steps_done = 0
    try:
        while i < n:
            ops = []
            while i < n and hist[i]["last"]["op"] not in ("runloop", "runloop0", "restart"):
                if hist[i]["last"]["op"] in ("deliver", "drained"):
                    return {"machinery": "deliver outside a drain at step %d" % i}
                ops.append(hist[i])
                i += 1
            # plan the hand-offs of this batch: whichever mailbox TLC filled is the waiter to pick
            prev = hist[i - len(ops) - 1]["st"] if i - len(ops) - 1 >= 0 else None
            for h in ops:
                plan_from(prev, h["st"])
                prev = h["st"]
            if ops and "~eager-deadline" in skip and any(h["last"]["op"] == "watchdog" for h in ops):
                return {"ok": True, "steps": steps_done, "skipped": "deadline start is free"}
            if ops:
                e0 = len(d.events)
                d.run_batch([to_op(h["last"]) for h in ops])
                evs = d.events[e0:]
                if d.errors:
                    return {"step": steps_done, "problem": "server raised", "errors": d.errors}
                if len(evs) != len(ops):
                    return {"machinery": "batch of %d ops produced %d events" % (len(ops), len(evs))}
                pv = hist[i - len(ops) - 1]["st"] if i - len(ops) - 1 >= 0 else None
                for h, e in zip(ops, evs):
                    df = diff_(h["st"], e["post"])
                    if df:
                        if requeues_several(pv, h["last"]):
                            return {"ok": True, "steps": steps_done, "skipped": "free choice"}
                        return {"step": steps_done, "op": h["last"], "differs": df, "spec": norm_spec_state(h["st"]),
                                "real": norm_real_state(e["post"])}
                    pv = h["st"]
                    if h["last"]["op"] == "pull" and h["last"]["got"] != e.get("got"):
                        return {"step": steps_done, "op": h["last"], "differs": ["pull result"], "real_got": e.get("got")}
                    steps_done += 1
                if after_step:
                    r = after_step(d, ops[-1])
                    if r:
                        return dict(r, step=steps_done, op=ops[-1]["last"])
            if i >= n:
                break
            if hist[i]["last"]["op"] == "restart":
                e0 = len(d.events)
                d.restart()
                skip.add("stats")
                df = diff_(hist[i]["st"], d.events[-1]["post"])
                if df:
                    return {"step": steps_done, "op": hist[i]["last"], "differs": df,
                            "spec": norm_spec_state(hist[i]["st"]), "real": norm_real_state(d.events[-1]["post"])}
                steps_done += 1
                i += 1
                continue
            # a drain: runloop, deliver*, drained  (incomplete at the end of the behaviour: stop)
            j = i + 1
            delivers = []
            if hist[i]["last"]["op"] == "runloop0":
                j = i                    # nothing pending: the "drained" state is this one
            else:
                while j < n and hist[j]["last"]["op"] == "deliver":
                    delivers.append(hist[j])
                    j += 1
                if j >= n or hist[j]["last"]["op"] != "drained":
                    break
            prev = hist[i]["st"]
            for h in delivers:
                plan_from(prev, h["st"])
                prev = h["st"]
            e0 = len(d.events)
            d.drain()
            evs = d.events[e0:]
            if d.errors:
                return {"step": steps_done, "problem": "server raised", "errors": d.errors}
            real_delivers = [e for e in evs if e["op"] == "deliver"]
            prev = hist[i]["st"]
            k = 0
            for h in delivers:
                lk, lw = h["last"]["k"], h["last"]["w"]
                pprev = prev
                if lk == "value":
                    pw = prev["waiters"][lw]
                    silent = (not pw["on"]) or pw["box"] == 0 or \
                        (prev["jobs"][pw["box"] - 1]["done"] and h["st"]["waiters"][lw]["on"])
                elif lk == "evt":
                    silent = prev["fwait"][lw] == 0
                else:
                    silent = prev["conn"][lw] != "closing"
                prev = h["st"]
                if silent:
                    continue
                if k >= len(real_delivers):
                    return {"step": steps_done, "op": h["last"], "differs": ["delivery missing in the real run"],
                            "real_events": [{x: y for x, y in e.items() if x != "post"} for e in evs]}
                e = real_delivers[k]
                k += 1
                if (e["k"], e["w"]) != (h["last"]["k"], h["last"]["w"]):
                    return {"step": steps_done, "op": h["last"], "differs": ["delivery order"],
                            "real_event": {x: y for x, y in e.items() if x != "post"}}
                df = diff_(h["st"], e["post"])
                if df:
                    if requeues_several(pprev, h["last"]):
                        return {"ok": True, "steps": steps_done, "skipped": "free choice"}
                    return {"step": steps_done, "op": h["last"], "differs": df, "spec": norm_spec_state(h["st"]),
                            "real": norm_real_state(e["post"])}
                steps_done += 1
            if k != len(real_delivers):
                return {"step": steps_done, "differs": ["extra delivery in the real run"],
                        "real_events": [{x: y for x, y in e.items() if x != "post"} for e in evs]}
            df = diff_(hist[j]["st"], evs[-1]["post"])
            if df:
                return {"step": steps_done, "op": {"op": "drained"}, "differs": df, "spec": norm_spec_state(hist[j]["st"]),
                        "real": norm_real_state(evs[-1]["post"])}
            steps_done += 1
            if after_step:
                r = after_step(d, hist[j])
                if r:
                    return dict(r, step=steps_done, op=hist[j]["last"])
            i = j + 1
    finally:
        d.close()
    return {"ok": True, "steps": steps_done}


def _worker(hists):
    out = []
    for idx, h in hists:
        try:
            r = replay_one(h)
        except Exception as e:          # noqa: BLE001
            r = {"machinery": "driver exception %r" % (e,)}
        out.append((idx, r))
    return out


def replay_behaviours(ctx, prop, quick):
    histlen = 16 if quick else 20
    want = 2000 if quick else 10000
    res = tlc.run(ctx, "WorkQSim", sim_cfg(prop, histlen), name="sim_replay", simulate=max(2, want // 200),   # TLC emits roughly 240 behaviours per unit of num here
                 
                  depth=histlen + 1, workers=ctx.ncpu, timeout=2400, heap="20g")
    if not res.ok:
        ctx.machinery("simulation for replay failed: %s %s\n%s" % (res.kind, res.name, res.out[-1500:]))
    hists = res.emitted[:want]
    if not hists:
        ctx.machinery("TLC emitted no behaviours for replay")
    # ... plus EVERY behaviour of the specification up to a small length (breadth-first search with
    # the history in the state, so that each path is a distinct state): exhaustive small scope on
    # the real code, every choice among eligible blocked pullers included
    klen = 3 if quick else 4
    bfs = tlc.run(ctx, "WorkQSim", sim_cfg(prop, klen), name="bfs_replay", workers=ctx.ncpu, timeout=3000)
    if not bfs.ok:
        ctx.machinery("exhaustive behaviour enumeration failed: %s %s\n%s" % (bfs.kind, bfs.name, bfs.out[-1500:]))
    n_sim = len(hists)
    hists = hists + bfs.emitted
    ctx.set_cover(replay_exhaustive_length=klen, replay_exhaustive_behaviours=len(bfs.emitted), replay_simulated_behaviours=n_sim)
    items = list(enumerate(hists))
    from .common import pool_map
    nparts = max(ctx.ncpu * 2, len(items) // 400)
    parts = [items[k::nparts] for k in range(nparts)]
    results = [x for part in pool_map(ctx, _worker, [p for p in parts if p]) for x in part]
    steps = 0
    agreed = 0
    for idx, r in results:
        if r.get("machinery"):
            ctx.machinery("replay driver: %s (behaviour %d)" % (r["machinery"], idx))
        if r.get("ok"):
            agreed += 1
            steps += r["steps"]
            if r.get("skipped"):
                ctx.cover(replay_cut_short_at_free_choice=1)
            continue
        op = r.get("op", {})
        key = "qs replay differs: op=%s fields=%s" % (op.get("op"), ",".join(r.get("differs", [r.get("problem", "?")])))
        ctx.violation(key, "the real queue server does not follow the TLC behaviour at step %s" % r.get("step"),
                      {"behaviour": [h["last"] for h in hists[idx]], "disagreement": r, "hist": hists[idx]})
    ctx.cover(traces_validated_against_impl=agreed, transitions=steps)
    ctx.set_cover(replayed_behaviours=agreed, replayed_steps=steps, replay_behaviour_length=histlen)
    h = hists[0]
    ctx.sample({"kind": "TLC behaviour replayed into the real server (actions only)", "actions": [x["last"] for x in h]})
