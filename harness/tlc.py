"""Run TLC on a module of /verif/spec and parse what it reports.

run(ctx, module, cfg, ...) copies spec/*.tla into a private scratch directory (TLC litters its
working directory), writes the config given as text, runs TLC under a timeout and returns a
TLCResult with: generated / distinct states, depth, per-action coverage, the violated
invariant / property / deadlock with its error trace (parsed into dicts of raw TLA+ value
strings), every line printed by PrintT, and the raw output.
"""
import glob
import json
import os
import re
import shutil
import subprocess
import tempfile
import time

from .common import VERIF, MachineryError

JAR = "/opt/veriftools/tla/tla2tools.jar"
DEPS = "/opt/veriftools/tla/CommunityModules-deps.jar"
SPEC = os.path.join(VERIF, "spec")


class TLCResult:
    def __init__(self):
        self.ok = False              # finished and found no error
        self.generated = 0
        self.distinct = 0
        self.depth = 0
        self.queue = 0
        self.kind = None             # invariant | property | deadlock | assert | error | timeout
        self.name = None             # violated invariant / property name
        self.message = ""
        self.trace = []              # list of (action, {var: raw value text})
        self.coverage = {}           # action name -> [distinct, taken]
        self.printed = []            # PrintT lines
        self.emitted = []            # decoded JSON values printed as PrintT("@@" \o ToJson(v))
        self.out = ""
        self.wall = 0.0
        self.timed_out = False

    def summary(self):
        return {"generated": self.generated, "distinct": self.distinct, "depth": self.depth,
                "ok": self.ok, "kind": self.kind, "name": self.name, "wall_s": round(self.wall, 1)}


_STATE_HDR = re.compile(r"^State (\d+): (.*)$")
_COV = re.compile(r"^<(\w+) line \d+, col \d+ to line \d+, col \d+ of module (\w+)(?: \([\d ]+\))?>: (\d+):(\d+)")
_STATS = re.compile(r"^(\d+) states generated, (\d+) distinct states found, (\d+) states left on queue")
_DEPTH = re.compile(r"The depth of the complete state graph search is (\d+)")
_SIMSTATS = re.compile(r"The number of states generated: (\d+)")
_RESOURCES = re.compile(r"insufficient memory for the Java Runtime|Cannot allocate memory|unable to create (new )?native thread|"
                        r"pthread_create failed|Could not reserve enough space|java\.lang\.OutOfMemoryError|"
                        r"GC overhead limit exceeded|failed to map segment|Native memory allocation")


def prepare_dir(ctx, name):
    d = os.path.join(ctx.scratch, name)
    os.makedirs(d, exist_ok=True)
    for f in glob.glob(os.path.join(SPEC, "*.tla")):
        shutil.copy(f, d)
    return d


def run(ctx, module, cfg, *, name=None, workers=None, simulate=None, depth=None, seed=None,
        env=None, coverage=False, timeout=600, deadlock=True, dfs=False, extra=(), heap="8g",
        continue_=False, allow_timeout=False):
    """cfg: config file text.  simulate: number of behaviours (int) → `-simulate num=N`."""
    name = name or module
    d = prepare_dir(ctx, "tlc-" + name)
    cfgp = os.path.join(d, name + ".cfg")
    with open(cfgp, "w") as f:
        f.write(cfg)
    workers = workers or ctx.ncpu
    java = ["java", "-XX:+UseParallelGC", "-Xmx" + heap, "-Djava.io.tmpdir=" + getattr(ctx, "tmp", tempfile.gettempdir())]
    if dfs:
        java.append("-Dtlc2.tool.queue.IStateQueue=StateDeque")
    cmd = java + ["-cp", JAR + ":" + DEPS, "tlc2.TLC", "-config", cfgp, "-workers", str(workers),
                  "-metadir", os.path.join(d, "meta"), "-noGenerateSpecTE"]
    if not deadlock:
        cmd.append("-deadlock")
    if coverage:
        cmd += ["-coverage", "1"]
    if continue_:
        cmd.append("-continue")
    if simulate:
        cmd += ["-simulate", "num=%d" % simulate]
        cmd += ["-depth", str(depth or 20)]
        cmd += ["-seed", str(seed if seed is not None else ctx.seed)]
    cmd += list(extra)
    cmd.append(os.path.join(d, module + ".tla"))
    e = dict(os.environ)
    e.pop("JAVA_TOOL_OPTIONS", None)
    if env:
        e.update(env)
    t0 = time.time()
    res = TLCResult()
    for attempt in (1, 2, 3):
        try:
            p = subprocess.run(cmd, cwd=d, env=e, stdout=subprocess.PIPE, stderr=subprocess.STDOUT,
                               timeout=timeout, text=True, errors="replace")
            out = p.stdout
            rc = p.returncode
        except subprocess.TimeoutExpired as ex:
            out = ex.stdout if isinstance(ex.stdout, str) else (ex.stdout or b"").decode("utf-8", "replace")
            rc = -9
            res.timed_out = True
        # the JVM could not get memory / threads from a machine that is busy with other work: that says
        # nothing about the specification - wait and run the same command again (at most twice)
        if not res.timed_out and rc != 0 and attempt < 3 and _RESOURCES.search(out or ""):
            print("  TLC on %s hit a resource limit of the machine (attempt %d), repeating in %d s"
                  % (name, attempt, 30 * attempt), flush=True)
            shutil.rmtree(os.path.join(d, "meta"), ignore_errors=True)
            time.sleep(30 * attempt)
            continue
        break
    res.wall = time.time() - t0
    res.out = out
    _parse(res, out)
    shutil.rmtree(os.path.join(d, "meta"), ignore_errors=True)
    if res.timed_out:
        res.kind = "timeout"
        if not allow_timeout:
            raise MachineryError("TLC timed out after %ds on %s" % (timeout, name))
        return res
    finished = ("Model checking completed. No error has been found." in out
                or (simulate and "Simulation" in out and res.kind is None and rc == 0)
                or (res.kind is None and rc == 0))
    res.ok = bool(finished and res.kind is None)
    if not res.ok and res.kind is None:
        tail = "\n".join(out.splitlines()[-25:])
        raise MachineryError("TLC failed on %s (rc=%s):\n%s" % (name, rc, tail))
    return res


def _parse(res, out):
    lines = out.splitlines()
    i = 0
    cur = None
    while i < len(lines):
        ln = lines[i]
        m = _STATS.match(ln)
        if m:
            res.generated, res.distinct, res.queue = int(m.group(1)), int(m.group(2)), int(m.group(3))
        m = _DEPTH.search(ln)
        if m:
            res.depth = int(m.group(1))
        m = _SIMSTATS.search(ln)
        if m:
            res.generated = max(res.generated, int(m.group(1)))
        m = _COV.match(ln)
        if m:
            c = res.coverage.setdefault(m.group(1), [0, 0])
            c[0] += int(m.group(3))
            c[1] += int(m.group(4))
        if ln.startswith("Error: "):
            msg = ln[7:]
            if res.kind is None:
                if msg.startswith("Invariant "):
                    res.kind, res.name = "invariant", msg.split()[1]
                elif msg.startswith("Action property "):
                    res.kind, res.name = "property", msg.split()[2]
                elif msg.startswith("Temporal property "):
                    res.kind, res.name = "property", msg.split()[2]
                elif "Temporal properties were violated" in msg:
                    res.kind, res.name = "property", "temporal"
                elif msg.startswith("Deadlock reached"):
                    res.kind = "deadlock"
                elif "The behavior up to this point is" in msg or "The error occurred when TLC was evaluating" in msg:
                    pass
                else:
                    res.kind = "assert" if "Assert" in msg or "assertion" in msg.lower() else "error"
                    res.message = "\n".join(lines[i:i + 12])
        m = _STATE_HDR.match(ln)
        if m:
            cur = (m.group(2), {})
            res.trace.append(cur)
            # a state is a conjunction "/\ var = value" possibly spanning several lines
            j = i + 1
            var = None
            while j < len(lines) and lines[j].strip() != "":
                s = lines[j]
                mm = re.match(r"^(?:/\\ )?(\w+) = (.*)$", s)
                if mm and (s.startswith("/\\ ") or var is None):
                    var = mm.group(1)
                    cur[1][var] = mm.group(2)
                elif var is not None:
                    cur[1][var] += " " + s.strip()
                j += 1
            i = j
            continue
        # PrintT output: TLC prints the value on its own line(s); we mark ours with a prefix
        if ln.startswith('"@@'):
            try:
                res.emitted.append(json.loads(json.loads(ln)[2:]))
            except ValueError:
                res.printed.append(ln)
        i += 1


def sany(path):
    """Parse-check one module; returns (ok, output)."""
    d = os.path.dirname(path)
    tmp = tempfile.mkdtemp(prefix="verif-sany-")
    try:
        p = subprocess.run(["java", "-Djava.io.tmpdir=" + tmp, "-cp", JAR + ":" + DEPS, "tla2sany.SANY", path], cwd=d,
                           stdout=subprocess.PIPE, stderr=subprocess.STDOUT, text=True)
    finally:
        shutil.rmtree(tmp, ignore_errors=True)
    ok = p.returncode == 0 and "*** Errors" not in p.stdout and "Fatal" not in p.stdout and "Could not" not in p.stdout
    return ok, p.stdout


def uncovered_actions(res, expected):
    """Names in `expected` that TLC's coverage report shows as never taken (or not reported)."""
    return [a for a in expected if res.coverage.get(a, [0, 0])[1] == 0]
