"""Beyond the listed properties: request/reply framing of rpcserver.handle_client
(spec/RpcConn.tla), recorded on the fake sockets of the qs driver."""
import json
import os

import gevent

from . import tlc


def _scenarios():
    A = lambda i: ("ok", i, json.dumps(["qadd", {"channel": "c1", "jobid": i, "timeout": 100}]) + "\n")
    U = lambda i: ("unknown", i, json.dumps(["nosuchmethod", {"x": i}]) + "\n")
    B = lambda i: ("badargs", i, json.dumps(["qadd", {"nosuch": i}]) + "\n")
    M = lambda i: ("malformed", i, "{this is not json %s\n" % i)
    P = lambda i: ("ok", i, json.dumps(["qpull", {"channels": ["nojobshere"]}]) + "\n")
    EOF = ("eof", "", "")
    return {
        "pipelined": [[A("a"), A("b")], [U("u1"), B("b1"), A("c")], [EOF]],
        "one_by_one": [[A("d")], [A("e")], [U("u2")], [EOF]],
        "malformed_then_more": [[A("f")], [M("m1"), A("never")], []],
        "malformed_first": [[M("m2")], []],
        "eof_at_once": [[EOF]],
        "blocked_pull_then_eof": [[A("g")], [P("p1")], [EOF]],
        "error_then_eof_same_batch": [[B("b2"), EOF]],
    }


def record():
    """Returns {scenario: [events]} - one connection each, on a fresh real server."""
    from . import qsdriver
    out = {}
    for name, batches in _scenarios().items():
        d = qsdriver.Driver()
        c = d.conns["w1"]
        raw = c.sock.log = []
        kinds = {}                        # line -> (kind, id)
        orig_on_shutdown = d._on_shutdown

        def on_shutdown(handler, call, c=c, raw=raw, orig=orig_on_shutdown):
            if handler._conn is c:
                raw.append(("shutdown", ""))
            return orig(handler, call)

        d._on_shutdown = on_shutdown
        for batch in batches:
            for kind, i, line in batch:
                kinds[line] = (kind, i)
                c.sock.q.put(line)
            for _ in range(8):
                gevent.sleep(0)
        for _ in range(8):
            gevent.sleep(0)
        # replies to error requests carry no id: give them the id of the request they answer (FIFO) so that the
        # spec can check the order by content for the successful ones and by position for the others
        d.close()
        log = []
        for what, s_ in raw:
            if what == "recv":
                if s_ == "":
                    log.append({"e": "eof"})
                else:
                    kind, i = kinds[s_]
                    log.append({"e": "recv", "id": i, "kind": kind})
            elif what == "send":
                try:
                    r = json.loads(s_)
                except ValueError:
                    r = {"unparsable": s_}
                res = r.get("result") if isinstance(r, dict) else None
                log.append({"e": "send", "id": res if isinstance(res, str) else "",
                            "err": isinstance(r, dict) and "error" in r, "keys": sorted(r) if isinstance(r, dict) else []})
            else:
                log.append({"e": what})
        out[name] = log
    return out


def normalise(log):
    """send events of error replies have no id of their own; leave "" - the spec matches them by kind."""
    ev = []
    outstanding = []
    for e in log:
        e = dict(e)
        if e["e"] == "recv":
            outstanding.append(e)
        if e["e"] == "send":
            if e["err"] and outstanding:
                # an error reply answers the oldest outstanding request (that is what is being checked
                # for the successful ones by content); carry its id so that Ev.id = Head(q).id is meaningful
                e["id"] = outstanding[0]["id"] if outstanding[0]["kind"] in ("unknown", "badargs") else "?"
            if outstanding:
                outstanding.pop(0)
            e.pop("keys", None)
        ev.append(e)
    return ev


def validate(ctx, logs):
    names = sorted(logs)
    traces = [normalise(logs[n]) for n in names]
    path = os.path.join(ctx.scratch, "rpcconn.json")
    with open(path, "w") as f:
        json.dump(traces, f)
    cfg = ("SPECIFICATION Spec\nINVARIANTS RepliesBounded EndsShutDown EmitConsumed\nPROPERTIES NothingAfterShutdown\n"
           "CHECK_DEADLOCK FALSE\n")
    res = tlc.run(ctx, "RpcConn", cfg, name="rpcconn", env={"TRACE_FILE": path}, timeout=300, workers=2)
    consumed = {e["consumed"] for e in res.emitted if isinstance(e, dict) and "consumed" in e}
    rejected = [names[k - 1] for k in range(1, len(names) + 1) if k not in consumed]
    return res, rejected, dict(zip(names, traces))
