"""Shared plumbing for every check: context, evidence, violations, known findings, scratch.

A check module (checks/cXX.py) exposes

    PROPERTY = "C16"
    LEVEL    = "model_checking"
    def run(ctx): ...

and talks to the outside world only through the `Ctx` object below:

    ctx.tier / ctx.seed / ctx.scratch / ctx.repo
    ctx.violation(key, what, replay_obj)   -> records a violation (known findings are matched by key)
    ctx.cover(**counts) / ctx.sample(obj)  -> evidence
    ctx.machinery(msg)                     -> exit 2 (never reported as a violation)

Exit codes: 0 held (possibly with KNOWN-FINDING lines), 1 VIOLATION, 2 machinery failure.
"""
import hashlib
import json
import os
import shutil
import sys
import tempfile
import time
import traceback

VERIF = os.path.dirname(os.path.dirname(os.path.abspath(__file__)))
REPO = os.environ.get("VERIF_REPO", "/repo")
NCPU = int(os.environ.get("VERIF_NCPU", str(os.cpu_count() or 4)))


SCRATCHES = []          # scratch directories of this process (removed by bin/check's watchdog too)


class MachineryError(Exception):
    """The verification machinery itself failed (TLC crash, unparsable output, ...)."""


def _known_findings():
    path = os.path.join(VERIF, "known_findings.json")
    if not os.path.exists(path):
        return []
    with open(path) as f:
        return json.load(f).get("findings", [])


_BASE_TMP = tempfile.gettempdir()      # before any check points TMPDIR into its own scratch directory


class Ctx:
    def __init__(self, prop, level, tier, seed, replay=None):
        self.prop = prop
        self.level = level
        self.tier = tier
        self.seed = seed
        self.replay = replay
        self.repo = REPO
        self.verif = VERIF
        self.ncpu = NCPU
        self.t0 = time.time()
        self.coverage = {}
        self.samples = []
        self.assumptions = []
        self.violations = []       # unknown ones
        self.known_hits = {}       # key -> (entry, count)
        self._seen_keys = set()
        self.notes = []
        self.drifts = []           # conformance failures of specifications beyond the listed property
        self.scratch = tempfile.mkdtemp(prefix="verif-%s-" % prop, dir=os.environ.get("VERIF_SCRATCH") or _BASE_TMP)
        SCRATCHES.append(self.scratch)
        # everything the code under test (and TLC) puts into "the temp dir" lands in the scratch
        # directory, which is removed when the check ends - nothing is left behind in /tmp
        self.tmp = os.path.join(self.scratch, "tmp")
        os.makedirs(self.tmp, exist_ok=True)
        os.environ["TMPDIR"] = self.tmp
        tempfile.tempdir = None
        self._known = [k for k in _known_findings() if k.get("property") == prop and k.get("status") == "open"]

    # ------------------------------------------------------------------ evidence
    def cover(self, **kw):
        """Add measured counts; integer values accumulate, other values overwrite."""
        for k, v in kw.items():
            if isinstance(v, bool) or not isinstance(v, int):
                self.coverage[k] = v
            else:
                self.coverage[k] = self.coverage.get(k, 0) + v

    def set_cover(self, **kw):
        self.coverage.update(kw)

    def sample(self, obj, limit=6):
        if len(self.samples) < limit:
            self.samples.append(obj)

    def assume(self, *texts):
        for t in texts:
            if t not in self.assumptions:
                self.assumptions.append(t)

    def note(self, text):
        print("  " + text, flush=True)
        self.notes.append(text)

    # ------------------------------------------------------------------ verdicts
    def violation(self, key, what, replay_obj):
        """Record one violation.  `key` identifies the specific failing input / call site /
        history (never just the property); a key listed as open in known_findings.json is
        reported as KNOWN-FINDING, anything else as VIOLATION.  Returns True if unknown."""
        for k in self._known:
            if _key_matches(k, key):
                ent = self.known_hits.setdefault(k["key"], [k, 0])
                ent[1] += 1
                return False
        if key in self._seen_keys:
            return True
        self._seen_keys.add(key)
        # runs against an alternative tree (bin/seedtest) keep their files apart
        d = os.path.join(VERIF, "replays", self.prop) if REPO == "/repo" else os.path.join(VERIF, "replays", "_alt", self.prop)
        os.makedirs(d, exist_ok=True)
        h = hashlib.sha1(key.encode("utf-8", "replace")).hexdigest()[:12]
        path = os.path.join(d, h + ".json")
        with open(path, "w") as f:
            json.dump({"property": self.prop, "key": key, "what": what, "seed": self.seed,
                       "tier": self.tier, "replay": replay_obj}, f, indent=1, default=repr)
        self.violations.append((key, what, path))
        return True

    def drift(self, module, what, replay_obj):
        """A conformance failure of a specification that goes BEYOND the listed property (the
        growth part of the spec: RenderFlow, RpcConn, Slave, ...).  The code no longer follows that
        specification, but the listed property itself is not shown violated - so this is reported
        on a line of its own ("SPEC-DRIFT ...") and in the evidence, never as VIOLATION, and does
        not change the exit status."""
        d = os.path.join(VERIF, "replays", self.prop) if REPO == "/repo" else os.path.join(VERIF, "replays", "_alt", self.prop)
        os.makedirs(d, exist_ok=True)
        h = hashlib.sha1(("drift:" + module + what).encode("utf-8", "replace")).hexdigest()[:12]
        path = os.path.join(d, "drift-" + h + ".json")
        with open(path, "w") as f:
            json.dump({"module": module, "what": what, "seed": self.seed, "tier": self.tier,
                       "replay": replay_obj}, f, indent=1, default=repr)
        self.drifts.append((module, what, path))
        print("SPEC-DRIFT module=%s (beyond property %s, which is not affected) %s replay=%s"
              % (module, self.prop, what[:400], path), flush=True)

    def machinery(self, msg):
        raise MachineryError(msg)

    # ------------------------------------------------------------------ finish
    def write_evidence(self):
        cov = dict(self.coverage)
        cov["samples"] = self.samples if self.samples else cov.get("samples", [])
        if self.level == "model_checking":
            cov.setdefault("traces_validated_against_impl", 0)
        ev = {
            "property_id": self.prop,
            "tier": self.tier,
            "seed": self.seed,
            "level": self.level,
            "coverage": cov,
            "assumptions": self.assumptions,
            "wall_s": round(time.time() - self.t0, 2),
            "violations": len(self.violations),
            "known_findings_hit": [{"key": k, "count": c, "what": e.get("what", "")}
                                   for k, (e, c) in sorted(self.known_hits.items())],
            "notes": self.notes,
            "spec_drift": [{"module": m, "what": w} for m, w, _ in self.drifts],
        }
        # evidence/<id>.json describes runs against /repo itself; a run against another tree
        # (VERIF_REPO, bin/seedtest) must not overwrite it
        d = os.path.join(VERIF, "evidence") if REPO == "/repo" else os.path.join(VERIF, "replays", "_alt", "evidence")
        os.makedirs(d, exist_ok=True)
        tmp = os.path.join(d, ".%s.json.tmp" % self.prop)
        with open(tmp, "w") as f:
            json.dump(ev, f, indent=1, default=repr)
            f.write("\n")
        os.replace(tmp, os.path.join(d, self.prop + ".json"))
        return ev

    def cleanup(self):
        if os.environ.get("VERIF_KEEP_SCRATCH"):
            print("  scratch kept: " + self.scratch)
            return
        shutil.rmtree(self.scratch, ignore_errors=True)


def _key_matches(entry, key):
    k = entry.get("key", "")
    if entry.get("match") == "prefix":
        return key.startswith(k)
    return key == k


def run_check(mod, tier, seed, replay=None):
    """Run one check module under the common contract; returns the exit code."""
    ctx = Ctx(mod.PROPERTY, mod.LEVEL, tier, seed, replay)
    code = 0
    try:
        try:
            from . import rebuild
            rebuild.ensure_built(ctx)
            if replay:
                mod.replay(ctx, replay)
            else:
                mod.run(ctx)
        finally:
            ctx.cleanup()
    except MachineryError as e:
        print("MACHINERY-FAILURE property=%s %s" % (ctx.prop, e), flush=True)
        return 2
    except Exception:
        traceback.print_exc()
        print("MACHINERY-FAILURE property=%s unexpected exception in the check" % ctx.prop, flush=True)
        return 2
    if not replay:
        ctx.write_evidence()
    for k, (e, c) in sorted(ctx.known_hits.items()):
        print("KNOWN-FINDING: property=%s %s [%s; seen %d times]" % (ctx.prop, e.get("what", ""), k, c), flush=True)
    for n, (key, what, path) in enumerate(ctx.violations):
        code = 1
        if n >= 12:
            print("  ... %d more violations (all written under replays/%s/)" % (len(ctx.violations) - n, ctx.prop))
            break
        print("  violation: %s — %s" % (key[:300], what[:600]))
        print("VIOLATION property=%s replay=%s" % (ctx.prop, path), flush=True)
    if code == 0:
        cov = ctx.coverage
        brief = ", ".join("%s=%s" % (k, cov[k]) for k in sorted(cov)
                          if isinstance(cov[k], (int, bool)) )
        print("OK property=%s tier=%s seed=%d wall=%.1fs %s" % (ctx.prop, tier, seed, time.time() - ctx.t0, brief), flush=True)
    return code


def chunks(seq, n):
    """Split seq into n nearly equal contiguous chunks (some may be empty)."""
    seq = list(seq)
    k, m = divmod(len(seq), n)
    out, i = [], 0
    for j in range(n):
        step = k + (1 if j < m else 0)
        out.append(seq[i:i + step])
        i += step
    return out


def pool_map(ctx, fn, jobs, workers=None):
    """Run fn over jobs in forked worker processes and return the results in order.  Unlike
    multiprocessing.Pool this notices a worker that died (OOM kill, crash): a machinery failure,
    never a silent hang."""
    import multiprocessing
    from concurrent.futures import ProcessPoolExecutor
    from concurrent.futures.process import BrokenProcessPool
    ex = ProcessPoolExecutor(max_workers=workers or ctx.ncpu, mp_context=multiprocessing.get_context("fork"))
    try:
        futs = [ex.submit(fn, j) for j in jobs]
        out = []
        for f in futs:
            try:
                out.append(f.result())
            except BrokenProcessPool:
                raise MachineryError("a worker process died while executing %s (killed or crashed)" % fn.__name__)
        return out
    finally:
        ex.shutdown(wait=True, cancel_futures=True)
