"""Concretisation and projection for spec/WikiDoc.tla (C02, C05-C07).

  concretise(doc, lang)      abstract tokens [t, a, b]  -> wikitext (and the site language's link
                             target table)
  project(tree, lang)        real advanced tree -> list of [w, path, t] in reading order, in the
                             label vocabulary of WikiDoc.tla (deliberately dumb)
  expected(doc)              the spec's `den`, as comparable tuples

The oracle is the spec's `den`; nothing here decides what a construct means except the
token -> characters table and the class -> label table.
"""
import json
import os
import re

LANGS = ["en", "de", "fr", "es", "it", "ja", "nl", "no", "pl", "pt", "sv", "simple"]

# ------------------------------------------------------------------ words
_WORD = re.compile(r"^w\d{4}$")


def word(n):
    return "w%04d" % n


# ------------------------------------------------------------------ link targets
# spelling as typed, namespace number, canonical partial name, leading colon
TARGETS = {
    1: ("Tgtone", 0, "Tgtone", False),
    2: ("tgt_two", 0, "Tgt two", False),
    3: ("User:Tgtthree", 2, "Tgtthree", False),
    4: (":Help:tgtfour", 12, "Tgtfour", True),
}
URLS = {1: "http://example.org/a", 2: "https://example.com/b?x=1"}

_siteinfo_cache = {}


def _siteinfo(lang):
    if lang not in _siteinfo_cache:
        import mwlib.network.siteinfo as si
        path = os.path.join(os.path.dirname(si.__file__), "known_sites", "siteinfo-%s.json" % lang)
        with open(path) as f:
            _siteinfo_cache[lang] = json.load(f)
    return _siteinfo_cache[lang]


def canonical_target(t, lang):
    """(ns, full canonical title) of target t on the site `lang`, read off the site's namespace
    table (independent of mwlib.core.nshandling)."""
    typed, ns, partial, colon = TARGETS[t]
    local = _siteinfo(lang)["namespaces"][str(ns)]["*"]
    return ns, (local + ":" + partial) if local else partial


def typed_target(t):
    typed = TARGETS[t][0]
    return typed[1:] if typed.startswith(":") else typed


# ------------------------------------------------------------------ palette tables (C05/C06)
# attribute sets: every entry switches a cleaner pass on (constants of treecleaner.py)
NO_DISPLAY = ["hiddenStructure", "dablink", "rellink", "editlink", "metadata", "noprint", "portal",
              "sisterproject", "NavFrame", "geo-multi-punct", "geo-nondefault",
              "coordinates_3_ObenRechts", "microformat", "navbox", "navbox-vertical",
              "Vorlage_Gesundheitshinweis", "hatnote"]
ATTRS = [
    'style="overflow:auto; height:200px"',
    'style="overflow:auto; height:20em"',
    'id="region_list"',
    'style="position:absolute; top:1px"',
    'style="position:relative"',
    'class="infobox"',
    'class="infobox collapsible collapsed"',
    'class="printonly"',
    'style="display:none"',
    'style="visibility:hidden"',
    'class="mp-upper"',
    'style="direction:rtl"',
    'border="1"',
    'style="width:50%; height:30px"',
    'STYLE="Color:red" Class="X"',
    'class="wikitable" style="float:right"',
    'class="toccolours"',
    'style="display:block"',
    'style="display:inline"',
] + ['class="%s"' % c for c in NO_DISPLAY] + ['id="%s"' % c for c in ("noprint", "navbox")]
ATTRS += ['colspan="3"', 'rowspan="2" style="height:5px"']

# the "dimension" part of the palette: every property that carries a length or a number which the
# cleaner, styleutils or miscutils read (or copy into the writers' vlist), written in every shape.
# Attribute id len(ATTRS) + p*len(DIM_SHAPES) + s + 1 (0-based p, s) = property p in shape s.
DIM_PROPS = [
    # the first N_READ_PROPS are read by the cleaning passes themselves
    'style="overflow:auto; height:%s"',          # remove_scroll_elements -> styleutils.scale_length
    'style="overflow:auto; max-height:%s; height:%s"',
    'style="overflow:AUTO; HEIGHT:%s"',
    'colspan="%s"',                                # AdvancedNode._clean_attrs / fix_table_colspans / numcols
    'rowspan="%s"',                                # split_table_lists
    'colspan=%s rowspan=%s',
    'border="%s"',                                 # styleutils.table_border
    # copied into the writers' vlist / read by styleutils for the writers
    'style="width:%s"',
    'style="height:%s; width:%s"',
    'style="font-size:%s"',
    'style="margin:%s; padding:%s"',
    'style="border-width:%s; border-style:solid"',
    'style="border:%s solid"',
    'style="line-height:%s"',
    'width="%s"',
    'height="%s"',
    'cellpadding="%s" cellspacing="%s"',
]
N_READ_PROPS = 7
DIM_SHAPES = ["300px", "300pt", "30em", "50%", "150%", "300", "12.5px", "250.75pt", "-20px", "-5", "0", "0px", "0%", "",
              "auto", "12 px", "1e3px", "300PX", "40EM", "80 %", "px", "%", "3", "2", "17", "1.5", "100000000000000000000",
              "3;", "\u0663",
              # digit / dot runs that are not numbers, signs, separators, exponents, other digit scripts
              "1.2.3px", "20..5em", ".px", "..", "5.px", ".5em", "1.2.3", "1,5px", "+3px", "- 3px", "3e", "3e5", "0x10px",
              "\u0661\u0662px", "1_000px", "300px !important", "auto 300px", "300 px 20", "\u00bdem", "NaNpx", "infpx", "1e400px"]

# one element per attribute (WikiDoc.tla AttrDoc): the host rotates with the attribute id
ATTR_HOSTS = ["<div{A}>ad</div>", "a <span{A}>ad</span> b", "{|{A}\n| ad1 || ad2\n|-\n| ad3 || ad4\n|}",
              "{|\n|-{A}\n| ad1 || ad2\n|-\n| ad3 || ad4\n|}", "{|\n|{A} | ad1\n| ad2\n|-\n| ad3 || ad4\n|}",
              "{|\n|+{A} | adcap\n|-\n| ad1 || ad2\n|}", "<ul{A}><li>ad1</li><li>ad2</li></ul>"]



# (block text, inline text)
SNIPS = [
    "<br/>",
    "<br/><br/>",
    "[[File:Pic.png|thumb|a caption text]]",
    "[[File:Pic.png]]",
    "[[File:Sound.ogg]]",
    "[[File:BSicon BHF.svg]]",
    "[[Category:Things]]",
    "[[de:Anderes]]",
    "[[:Category:Things]]",
    "<gallery>\nFile:Pic.png|cap one\nFile:Pic2.png\n</gallery>",
    "<references/>",
    "<h2>html head</h2>",
    "<h3>html head</h3>\nafter html head",
    "<h2 style=\"display:block\">block head</h2>\n\nafter block head",
    "<h3 style=\"display:block\">block head</h3>",
    "== See also ==",
    "[http://example.org/w?action=edit edit]",
    "http://example.org/bare",
    "<math>x^2</math>",
    "<math>\\begin{align}x\\end{align}</math>",
    "<u><center>swapme</center></u>",
    "<center>centred</center>",
    "<pre>pre\ntag</pre>",
    "<source lang=\"c\">int x;</source>",
    "<code>co de</code>",
    "<cite>ci te</cite>",
    "<blockquote>quo te</blockquote>",
    "<big>bi g</big>",
    "<sup>" + "s" * 210 + "</sup>",
    "<sub>sb</sub>",
    "<small></small>",
    "<i></i>",
    "<span class=\"printonly\">[http://example.org/p po]</span>",
    "<div class=\"noprint\">hidden<ref name=\"keep\">kept ref</ref></div>",
    "<ref name=\"keep\"/>",
    "<ref></ref>",
    "<ref name=\"late\"/>",
    "<ref name=\"late\">late def</ref>",
    "<ref name=\"dup\">dup one</ref><ref name=\"dup\">dup two</ref>",
    "<ref>x</ref>",
    "----",
    "<timeline>x</timeline>",
    "<imagemap>\nFile:Pic.png|100px\nrect 1 1 2 2 [[Tgtone]]\n</imagemap>",
    "<poem>po\n em</poem>",
    "<div style=\"overflow:auto; height:300px\">\n{|\n| sc1 || sc2\n|}\n</div>",
    "<div id=\"region_list\">\n{|\n| rl1 || rl2\n|-\n| rl3 || rl4\n|}\n</div>",
    "{| style=\"overflow:auto; height:300px\"\n| ov1 || ov2\n|}",
    "{|\n| <div style=\"overflow:auto; height:300px\">ovc</div> || oy\n|}",
    "<ul><li>html li</li><li>second</li></ul>",
    "<ol><li>html ol</li></ol>",
    "<dl><dt>term</dt><dd>desc</dd></dl>",
    "<table><tr><td>ht1</td><th>ht2</th></tr></table>",
    "<table><caption>hcap</caption><tr><td>ht1</td></tr></table>",
    ";term : desc",
    "<p>html para</p>",
    "<span style=\"position:absolute\"><span style=\"position:relative\">abs</span></span>",
    "&nbsp;&amp;",
    "<nowiki>''no''</nowiki>",
    "<!-- comment -->",
    "__TOC__",
    "{{unknown template|x}}",
    "<tt>tele</tt><kbd>k</kbd><s>s</s><strike>st</strike><del>d</del><ins>i</ins><var>v</var><u>u</u>",
    "<font color=\"red\">font</font>",
    "<div id=\"region_list\">\n<div>\n{|\n| rn1 || rn2\n|-\n| rn3 || rn4\n|}\n</div>\n</div>",
    "<div id=\"region_list\">\n* item\n{|\n| {|\n| in1 || in2\n|}\n|}\n</div>",
    "{|\n|\n{|\n| " + "longcell " * 70 + "|| second\n|-\n| third || fourth\n|}\n|}",
    "{|\n|+ outer cap\n|\n{|\n| " + "longcell " * 70 + "\n|}\n|}",
    " pre [[File:Pic.png]] mid [[File:Pic2.png]] end",
    " pre [[File:Pic.png]] text ''x [[File:Pic2.png]] y'' end",
    "<div style=\"overflow:auto; height:50%\">pct</div>",
    "{| style=\"overflow:auto; height:80%\"\n| pc1 || pc2\n|}",
    "<ul style=\"overflow:auto;height:200px\"><li>scroll li</li><li>two</li></ul>",
    "<ol style=\"overflow:auto;height:300px\"><li>scroll ol</li></ol>",
    "<dl style=\"overflow:auto;height:300px\"><dt>st</dt><dd>sd</dd></dl>",
    "[[File:Pic.png|thumb|" + "long caption words <br/> " * 40 + "end]]",
    "{|\n|\n{|\n| " + " || ".join("n%d" % i for i in range(1, 18)) + "\n|}\n|}",
    "{|\n| left\n|\n== big section ==\n" + ("bigsection" * 25 + " ") * 9 + "\n|}",
    "<ref>[http://example.org/a first label] and [http://example.org/a second label] http://example.org/a</ref>",
    "{| class=\"infobox\"\n| ib1 || ib2\n|}",
    "<h2><table><tr><td>hx</td><td>hy</td></tr></table> more title</h2>\n\nbody text",
    "<h3><ul><li>hli</li><li>two</li></ul> more title</h3>\n\nbody text",
    "<h2>{|\n| wx || wy\n|}\n more</h2>\n\nbody text",
    "{|\n| [[File:BSicon BHF.svg]] || train\n|-\n| [[File:BSicon STR.svg]] || line\n|}",
    "some text\n\n== References ==\n<references/>\n",
    "<li>stray li</li>",
    "<td>stray td</td>",
    "<caption>stray cap</caption>",
]

# HTML nesting product (WikiDoc.tla Nest): host( container( child ) )
NEST_CONT = [("''", "''"), (", "), ("<i>", "</i>"), ("<b>", "</b>"), ("<u>", "</u>"), ("<em>", "</em>"),
             ("<strong>", "</strong>"), ("<span>", "</span>"), ("<small>", "</small>"), ("<big>", "</big>"), ("<sup>", "</sup>"),
             ("<sub>", "</sub>"), ("<font color=\"red\">", "</font>"), ("<s>", "</s>"), ("<tt>", "</tt>")]
NEST_BLK = ["<center>x y</center>", "<div>x y</div>", "<p>x y</p>", "<blockquote>x y</blockquote>",
            "<table><tr><td>x</td><td>y</td></tr></table>", "<ul><li>x</li><li>y</li></ul>", "<ol><li>x</li></ol>",
            "<dl><dt>x</dt><dd>y</dd></dl>", "<pre>x\ny</pre>", "<br/>", "<hr/>",
            "\n{|\n| x || y\n|}\n", "\n* x\n* y\n", "\n# x\n", "\n; x\n: y\n", "\n x y\n", "\n----\n",
            "<gallery>\nFile:Pic.png|x\n</gallery>", "[[File:Pic.png|thumb|x y]]", "<h2>x</h2>", "<ref>x y</ref>", "<math>x</math>"]
NEST_HOST = ["<ul{A}><li>a {X} b</li></ul>", "<ol{A}><li>{X}</li></ol>", "<table{A}><tr><td>a {X} b</td></tr></table>",
             "<table><tr><th{A}>{X}</th></tr></table>", "<dl{A}><dd>a {X} b</dd></dl>", "<dl><dt{A}>{X}</dt></dl>",
             "<table{A}><caption>a {X} b</caption><tr><td>c</td></tr></table>", "* a {X} b", "{|{A}\n| a {X} b\n|}",
             "w<ref>a {X} b</ref>", "<gallery>\nFile:Pic.png|a {X} b\n</gallery>", "a {X} b", "<div{A}>a {X} b</div>",
             "<center{A}>{X}</center>", "<blockquote{A}>a {X} b</blockquote>", "; a {X} b", ": {X}", "== a {X} b ==",
             "{|\n|+ a {X} b\n|-\n| c\n|}"]


def nest_text(code, attr):
    p = code % 3
    code //= 3
    c = code % len(NEST_CONT)
    code //= len(NEST_CONT)
    b = code % len(NEST_BLK)
    h = (code // len(NEST_BLK)) % len(NEST_HOST)
    blk = NEST_BLK[b]
    inner = blk if p == 0 else (blk + " tail") if p == 1 else ("head " + blk)
    return NEST_HOST[h].replace("{A}", _attr(attr)).replace("{X}", NEST_CONT[c][0] + inner + NEST_CONT[c][1])


# ---- snippet families (products written out)
# hidden host x hiding attribute: a NAMED reference with content inside something that is removed for
# print, re-used later (remove_no_print_nodes / _safe_remove keep the reference)
HIDE_ATTRS = ['class="noprint"', 'style="display:none"', 'style="visibility:hidden"', 'id="navbox"']
HIDE_HOSTS = ["{|\n|+ {H} | hcap{R}\n|-\n| hc1 || hc2\n|}", "<table><caption {H}>hcap{R}</caption><tr><td>hc1</td><td>hc2</td></tr></table>",
              "{|\n|- {H}\n| hrow{R} || hc2\n|-\n| hc3 || hc4\n|}", "{|\n| {H} | hcell{R}\n| hc2\n|-\n| hc3 || hc4\n|}",
              "{|\n! {H} | hhead{R}\n! hc2\n|-\n| hc3 || hc4\n|}", "<div {H}>hdiv{R}</div>", "x <span {H}>hspan{R}</span> y",
              "<ul><li {H}>hli{R}</li><li>two</li></ul>", "<dl><dd {H}>hdd{R}</dd></dl>", "{| {H}\n| htab{R} || hc2\n|}",
              "{|\n|\n{|\n|+ {H} | hnest{R}\n|-\n| hc1 || hc2\n|}\n|}", "<center {H}>hcen{R}</center>", "<p {H}>hp{R}</p>",
              "== hsec <span {H}>x{R}</span> =="]
for _i, _h in enumerate(HIDE_HOSTS):
    for _j, _a in enumerate(HIDE_ATTRS):
        _n = "h%d_%d" % (_i, _j)
        SNIPS.append(_h.replace("{H}", _a).replace("{R}", '<ref name="%s">kept %s</ref>' % (_n, _n)) + '\n\nuse<ref name="%s"/>' % _n)

# tag extensions (mwlib.parser.tagext): the same tag with the same attributes and body twice
TAGEXT = ['<rot13>abc def</rot13>', '<idl>interface X { };</idl>', '<syntaxhighlight lang="c">int x;</syntaxhighlight>',
          '<rdf>about</rdf>', '<time>12:30</time>', '<hiero>A1</hiero>', '<section begin="s1"/>',
          '<listing name="Place" address="Street 1">lis ting</listing>', '<see name="Sight" phone="1">a sight</see>',
          '<buy name="Shop">a shop</buy>', '<do name="Thing">a thing</do>', '<eat name="Inn" address="Road 2">good food</eat>',
          '<drink name="Bar">a bar</drink>', '<sleep name="Hotel" price="10">a bed</sleep>', '<timeline>x</timeline>', '<math>x^2</math>']
for _t in TAGEXT:
    SNIPS.append("first %s\n\n* second %s\n\n{|\n| third %s\n|}" % (_t, _t, _t))

# long tables (>= 3 columns, > 2500 characters: split_table_to_columns' heading / list heuristics) x
# cell content x caption richness x text before the table
_LONG = ("long" * 55 + " ")          # few, long words: the heuristics count characters, the traces words
_CELLS = {"plain": lambda k: _LONG + "c%d" % k,
          "list": lambda k: "\n* li%d " % k + _LONG + "\n* two",
          "bighead": lambda k: "<big>hd%d</big> " % k + _LONG + "\n* li%d\n* two" % k}
_CAPS = {"nocap": "", "plaincap": "|+ long table caption\n",
         "richcap": "|+ a ''b'' c <span><big>d</big></span> e <b><big>f</big></b> g <small>h</small> [[Tgtone|i]]\n"}
for _r, _c in ((4, 3), (3, 5)):
    for _ck in sorted(_CELLS):
        for _cap in sorted(_CAPS):
            for _pre in ("", "before the table " * 15 + "\n\n"):
                _rows = "\n|-\n".join("\n".join("| " + _CELLS[_ck](i * _c + j) for j in range(_c)) for i in range(_r))
                SNIPS.append(_pre + "{|\n" + _CAPS[_cap] + "|-\n" + _rows + "\n|}")

# tall cells (split_big_table_cells / split_row): an oversized direct child (list of 16 items, a 1200
# character paragraph) first / in the middle / last in a cell, in one- and two-column tables
_BIGITEMS = {"list": "\n" + "\n".join("* item %d" % i for i in range(1, 17)) + "\n", "para": "\n\n" + ("paragraph" * 30 + " ") * 5 + "\n\n"}
for _bk in sorted(_BIGITEMS):
    for _posn in ("first", "middle", "last"):
        for _cols in (1, 2):
            _cell = {"first": _BIGITEMS[_bk] + "closing words", "middle": "intro words" + _BIGITEMS[_bk] + "closing words",
                     "last": "intro words" + _BIGITEMS[_bk]}[_posn]
            SNIPS.append("{|\n| " + _cell + ("\n| other column" if _cols == 2 else "") + "\n|-\n| second row" +
                         ("\n| sr2" if _cols == 2 else "") + "\n|}")

# free lexemes (malformed markup); used unless spec/WikiTokens.tla's emitted strings are supplied
LEXEMES = [
    "{|", "|}", "|-", "|", "||", "!", "!!", "|+", "\n", "\n\n", " ", "==", "===", "=", "'''", "''", "'''''", "'",
    "[[", "]]", "[", "]", "[[File:Pic.png|thumb|", "[[Tgtone|", "[http://example.org ", "http://example.org/x",
    "*", "#", ":", ";", "**", "*#", ":*", "----", "lex", "Lex two",
    "<ref>", "</ref>", "<ref name=\"a\">", "<ref name=\"a\"/>", "<references/>",
    "<div>", "</div>", "<div style=\"overflow:auto; height:200px\">", "<div id=\"region_list\">", "<div class=\"noprint\">",
    "<span>", "</span>", "<span style=\"position:absolute\">",
    "<b>", "</b>", "<i>", "</i>", "<u>", "</u>", "<center>", "</center>", "<big>", "</big>", "<sup>", "</sup>", "<sub>", "</sub>",
    "<br/>", "<br>", "<p>", "</p>", "<pre>", "</pre>", "<nowiki>", "</nowiki>", "<math>", "</math>",
    "<gallery>", "</gallery>", "<blockquote>", "</blockquote>", "<code>", "</code>", "<cite>", "</cite>",
    "<table>", "</table>", "<tr>", "</tr>", "<td>", "</td>", "<th>", "</th>", "<caption>", "</caption>",
    "<table style=\"overflow:auto; height:200px\">",
    "<ul>", "</ul>", "<ol>", "</ol>", "<li>", "</li>", "<dl>", "</dl>", "<dt>", "<dd>",
    "<h2>", "</h2>", "<h3>", "</h3>", "<source>", "</source>", "<timeline>", "</timeline>", "<poem>", "</poem>",
    "{{", "}}", "{{{", "}}}", "&amp;", "&#60;", "<!--", "-->", "__NOTOC__", "~~~~",
]

STYLE_OPEN = {(1, 0): "'''", (2, 0): "''", (3, 0): "'''''", (1, 1): "<b>", (2, 1): "<i>", (1, 2): "<strong>", (2, 2): "<em>"}
STYLE_CLOSE = {(1, 0): "'''", (2, 0): "''", (3, 0): "'''''", (1, 1): "</b>", (2, 1): "</i>", (1, 2): "</strong>", (2, 2): "</em>"}
PREFIX_CHARS = {1: "*", 2: "#", 3: ";", 4: ":"}


def _prefix(code, n):
    digits = []
    for _ in range(n):
        digits.append(code % 5)
        code //= 5
    return "".join(PREFIX_CHARS[d] for d in reversed(digits))


def attr_text(a):
    """attribute id -> attribute text ('' for 0)"""
    if a == 0:
        return ""
    if a <= len(ATTRS):
        return ATTRS[a - 1]
    k = (a - len(ATTRS) - 1) % (len(DIM_PROPS) * len(DIM_SHAPES))
    prop, shape = DIM_PROPS[k // len(DIM_SHAPES)], DIM_SHAPES[k % len(DIM_SHAPES)]
    return prop.replace("%s", shape)


def _attr(a):
    return "" if a == 0 else " " + attr_text(a)


def concretise(doc, lexemes=None):
    """tokens -> wikitext"""
    lexemes = lexemes or LEXEMES
    o = []
    for tk in doc["out"]:
        t, a, b = tk["t"], tk["a"], tk["b"]
        if t == "w":
            o.append(word(a))
        elif t == "sp":
            o.append(" ")
        elif t == "nl":
            o.append("\n")
        elif t == "bl":
            o.append("\n" * a)
        elif t == "h":
            o.append("=" * a)
        elif t == "li":
            o.append(_prefix(a, b))
        elif t == "dsep":
            o.append(" : ")
        elif t == "pre":
            o.append(" ")
        elif t == "tb":
            o.append("{|" + _attr(a))
        elif t == "te":
            o.append("|}")
        elif t == "tr":
            o.append("|-" + _attr(a))
        elif t == "tc":
            o.append(("!" if a else "|") + ((_attr(b) + " |") if b else ""))
        elif t == "tcc":
            o.append("!!" if a else "||")
        elif t == "tcap":
            o.append("|+" + ((_attr(a) + " |") if a else ""))
        elif t == "so":
            o.append(STYLE_OPEN[(a, b)])
        elif t == "sc":
            o.append(STYLE_CLOSE[(a, b)])
        elif t == "lo":
            o.append("[[" + TARGETS[a][0] + ("|" if b else "]]"))
        elif t == "lc":
            o.append("]]")
        elif t == "eo":
            o.append("[" + URLS[a])
        elif t == "ec":
            o.append("]")
        elif t == "ro":
            o.append("<ref>" if b == 0 else ('<ref name="n%d">' % a) if b == 1 else ('<ref name="n%d"/>' % a))
        elif t == "rc":
            o.append("</ref>")
        elif t == "do":
            o.append("<div%s>" % _attr(a))
        elif t == "dc":
            o.append("</div>")
        elif t == "xo":
            o.append("<span%s>" % _attr(a))
        elif t == "xc":
            o.append("</span>")
        elif t == "adoc":
            o.append(ATTR_HOSTS[b % len(ATTR_HOSTS)].replace("{A}", _attr(a)))
        elif t == "nest":
            o.append(nest_text(a, b))
        elif t == "snip":
            o.append(SNIPS[(a - 1) % len(SNIPS)])
        elif t == "lex":
            o.append(lexemes[(a - 1) % len(lexemes)])
        else:
            raise ValueError("unknown token %r" % (tk,))
    return "".join(o)


def expected(doc):
    return [(e["w"], tuple((l["k"], l["a"]) for l in e["path"]), e["t"]) for e in doc["den"]]


# ------------------------------------------------------------------ projection
INLINE_RANK = {"Bold": 1, "Italic": 2, "Link": 3, "Ext": 4}
IGNORED = {"Article", "Paragraph", "Node", "Div"}


def _link_label(node, lang):
    """Which abstract target does this link node denote on this site?"""
    cls = node.__class__.__name__
    for t in TARGETS:
        typed, ns, partial, colon = TARGETS[t]
        want_cls = "ArticleLink" if (ns == 0 and not colon) else "NamespaceLink"
        wns, wfull = canonical_target(t, lang)
        if (cls == want_cls and node.target == typed_target(t) and getattr(node, "full_target", None) == wfull
                and getattr(node, "ns", None) == wns and bool(node.colon) == colon):
            return ("Link", t)
    return ("Link?%s:%r:%r:%r" % (cls, node.target, getattr(node, "full_target", None), getattr(node, "ns", None)), 0)


def _ordinal(node, cls):
    sibs = [c for c in node.parent.children if c.__class__.__name__ == cls]
    for i, c in enumerate(sibs):
        if c is node:
            return i + 1
    return 0


def labels_of(node, lang):
    """Labels of the ancestors of `node` (root first), canonicalised like WikiDoc.tla's CurPath."""
    chain = []
    n = node
    while n is not None:
        chain.append(n)
        n = n.parent
    chain.reverse()
    block, inline = [], []
    for i, n in enumerate(chain):
        cls = n.__class__.__name__
        if n is node and cls == "Text":
            continue
        if cls in IGNORED:
            # the first child of a Section holds its title
            if cls == "Node" and n.parent is not None and n.parent.__class__.__name__ == "Section" \
                    and n.parent.children and n.parent.children[0] is n:
                block.append(("SecTitle", n.parent.level))
            continue
        if cls == "Section":
            block.append(("Sec", n.level))
        elif cls == "ItemList":
            nxt = chain[i + 1] if i + 1 < len(chain) else None
            if nxt is not None and nxt.__class__.__name__ == "Item":
                block.append(("OL" if getattr(n, "numbered", False) else "UL", _ordinal(nxt, "Item")))
            else:
                block.append(("ItemList-without-Item", 0))
        elif cls == "Item":
            if n.parent is None or n.parent.__class__.__name__ != "ItemList":
                block.append(("Item-outside-ItemList", 0))
        elif cls == "DefinitionTerm":
            block.append(("DT", 0))
        elif cls == "DefinitionDescription":
            block.append(("DD", 0))
        elif cls == "Table":
            block.append(("Table", 0))
        elif cls == "Caption":
            block.append(("Caption", 0))
        elif cls == "Row":
            block.append(("Row", _ordinal(n, "Row")))
        elif cls == "Cell":
            block.append(("Cell", 2 * _ordinal(n, "Cell") + (1 if getattr(n, "is_header", False) else 0)))
        elif cls == "PreFormatted":
            block.append(("Pre", 0))
        elif cls == "Reference":
            block.append(("Ref", 0))
            inline = []                      # styles opened outside a reference do not apply inside
        elif cls == "Strong":
            inline.append(("Bold", 0))
        elif cls == "Emphasized":
            inline.append(("Italic", 0))
        elif cls in ("ArticleLink", "NamespaceLink", "Link", "SpecialLink", "InterwikiLink", "LangLink", "CategoryLink", "ImageLink"):
            inline.append(_link_label(n, lang))
        elif cls == "NamedURL":
            u = [k for k, v in URLS.items() if v == n.caption]
            inline.append(("Ext", u[0]) if u else ("Ext?%r" % n.caption, 0))
        else:
            block.append(("Other:" + cls, 0))
    inline = sorted(set(inline), key=lambda l: (INLINE_RANK.get(l[0], 9), l))
    return tuple(block) + tuple(inline)


def project(tree, lang):
    """[(w, path, t)] for every visible word, in document order."""
    res = []

    def walk(n):
        cls = n.__class__.__name__
        if cls == "Text":
            for piece in (n.caption or "").split():
                if _WORD.match(piece):
                    res.append((int(piece[1:]), labels_of(n, lang), 0))
                else:
                    res.append((-1, labels_of(n, lang) + (("stray-text:" + piece, 0),), 0))
            return
        if cls in ("ArticleLink", "NamespaceLink") and not n.children:
            lab = labels_of(n, lang)
            t = [l[1] for l in lab if l[0] == "Link"]
            res.append((0, lab, t[0] if t else -1))
        for c in n.children:
            walk(c)

    walk(tree)
    return res


def compare(doc, got):
    """None, or a description of the first disagreement between den and the projection.
    The word number of a link-target pseudo word is not observable: compared as 0."""
    exp = [((0 if t else w), path, t) for (w, path, t) in expected(doc)]
    if exp == got:
        return None
    gw = [g[0] for g in got]
    ew = [e[0] for e in exp]
    if gw != ew:
        missing = [w for w in ew if w not in gw]
        dup = sorted(set(w for w in gw if gw.count(w) > ew.count(w)))
        stray = [g for g in got if g[0] == -1]
        if stray:
            return {"field": "stray-text", "detail": stray[0][1][-1][0], "path": stray[0][1][:-1]}
        if missing:
            return {"field": "word-dropped", "detail": missing[:4]}
        if dup:
            return {"field": "word-duplicated", "detail": dup[:4]}
        return {"field": "word-order", "detail": [ew[:12], gw[:12]]}
    for e, g in zip(exp, got):
        if e != g:
            return {"field": "path", "word": e[0], "t": e[2], "expected": e[1], "got": g[1]}
    return {"field": "?"}


def parse(raw, lang, title="Verif"):
    from mwlib.parser import advtree
    from mwlib.parser.refine.uparser import parse_string
    tree = parse_string(title, raw=raw, lang=lang)
    advtree.build_advanced_tree(tree)
    return tree
